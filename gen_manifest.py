#!/usr/bin/env python3
"""Regenerates MANIFEST.json from the table below (kept next to the checks so they stay in step)."""
import json, sys
P = {}
def add(pid, cat, text, note, technique, design):
    P[pid] = dict(cat=cat, text=text, note=note, technique=technique, design=design)

add("C04", "exploration",
    "Exhaustive enumeration of the u8/u16 sub-domain (every byte value/pair at every position and failing offset of short buffers, all five specs) plus seeded proptest search over all widths, boundary/sign patterns and offsets up to usize::MAX, judged against a shift-and-add reference, incl. cursors 2^s+i (s in 32..63) that alias a readable offset if high bits are dropped, plus reads whose window ends at or beyond byte 2^32 of a 4 GiB+64 byte buffer of lazily mapped zero pages; the run-time and native specifications must return exactly what the matching fixed one returns (value, error variant and payload, cursor); the domain is small and closed-form, so enumeration+random search is the natural level.",
    "Trusts the 12-line shift-and-add reference and the 64-bit little-endian host for the NativeEndian clause.",
    "exhaustive enumeration + property-based testing (proptest) against a reference implementation", "DESIGN.md §5 C04")

add("C02", "exploration",
    "Seeded proptest search over field-value assignments (boundary, top-bit, per-byte-distinct, raw) for 18 structure types x 4 encodings x fixed/run-time specs, judged against an independent ELF writer (inverse oracle) whose layout is checked against <elf.h>; the 2^16 domain of the derived one-/two-byte accessors is enumerated exhaustively; further sub-checks decode note headers through NoteIterator (the crate's NoteHeader is private), the crate-private version link fields through where the iterators go, and the packed version index at its use site (get_requirement/get_definition with the hidden bit; several symbols of one version resolved on ONE table handle in a generated order, so a memo cannot leak one symbol's hidden bit into another's answer); last/count/nth run on a one-entry table followed by a partial entry, and next-then-nth on a two-entry table. Comparisons are field by field (never through the crate's own PartialEq) and buffers sit at every address residue. Random+boundary search is the right level: each field is decoded independently, so a wrong width/extension/mask/order shows on a large share of cases.",
    "Trusts the writer (cross-checked field by field against glibc <elf.h> offsets at start-up) and the ABI macro transcriptions (ELF32_R_*, ELF64_R_*, ELF_ST_*).",
    "property-based testing (proptest) with an inverse (encoder) oracle + exhaustive enumeration of 2^16 accessor inputs", "DESIGN.md §5 C02")
add("C09", "exploration",
    "Seeded proptest search over (entry type, class, order, n<=40 writer-encoded entries, ragged tails of every residue, access scripts incl. indices at len, len+1, k*2^32+i and near usize::MAX whose byte offset wraps, interleaved iterators, and the provided Iterator methods nth/skip/step_by/count/last/fuse on fresh and partly consumed iterators); model oracle len=floor(bytes/ABI entsize); tables at every address residue, the size_hint contract, direct calls on the concrete relocation iterator types, field-by-field comparison (never the crate's own PartialEq); a second sub-check uses tables of 65 534..200 000 entries; a third (in_file) applies the contract to every table the file-level accessors of ElfBytes and ElfStream hand out on generated/mutated files (tables that are windows of a larger buffer: get(len), get(len+1..), get(2^32|len) must fail) and compares every SHT_REL/SHT_RELA section through ElfBytes and through ElfStream over a short-reading, interrupting reader with a reference decoding of its whole entries; a fourth (beyond_4gib) lays every entry type in both classes over a 4 GiB+64 byte buffer and compares get(i) around byte 2^32 with parse_at.",
    "Trusts the ABI entry sizes (from <elf.h>) and the writer.",
    "model-based property testing (proptest): access scripts against a floor(len/entsize) model and encoder ground truth", "DESIGN.md §5 C09")
add("C15", "exploration",
    "Exhaustive enumeration of every table of length 0..7 over {NUL,'a',0xC3,0xA9} at every offset 0..len+2 (233k lookups) plus seeded proptest search over tables up to 4 KiB (4%: up to 200 KiB with NUL-free runs of 4 096 / 65 535+ bytes) with offsets at len-1, len, len+1, k*2^32+i, boundary values and usize::MAX, against a NUL-scan reference, including pointer identity of the returned slice; tables start at every address residue and include valid multi-byte UTF-8 text; a 4 GiB+64 byte table (lazily mapped) is looked up at every offset around byte 2^32.",
    "Trusts the NUL-scan reference and core::str::from_utf8.",
    "exhaustive enumeration + property-based testing (proptest) against a reference implementation", "DESIGN.md §5 C15")

add("C11", "exploration",
    "Seeded proptest search over name sets built to collide (constructed djb2 collisions, low-bit neighbours, same-bucket names, duplicates, empty and high-byte names), table parameters (nbucket, bloom words 1..64, shift 0..31, symoffset) and all four encodings; .gnu.hash sections come from an independent builder (inverse oracle) and every lookup is judged against a linear scan; all queries are also run on ONE table value sorted by hash in both directions (history independence), as slices of the string table's own buffer, with a NUL appended, and alternating with a second symbol table of inverted st_value on the same handle (the entry must come from the table passed to that call); a second stream corrupts the tables arbitrarily and checks the soundness clause; the hash function is compared with a djb2 reference exhaustively on short strings and on random strings.",
    "Trusts the independent GNU-hash builder (bloom/bucket/chain layout per the GNU format) and the linear-scan oracle.",
    "property-based testing (proptest): inverse oracle (table builder) + linear-scan reference + corruption for soundness; exhaustive enumeration for short hash inputs", "DESIGN.md §5 C11")
add("C12", "exploration",
    "As C11 (incl. the one-handle histories with two symbol tables) for the gABI .hash section: independent builder (head/tail/mixed chain insertion, nbucket 1..64, nchain = symbol count), collisions found by search, long and high-byte names for the top-nibble fold, linear-scan oracle, corruption stream for soundness, sysv_hash against the gABI elf_hash reference exhaustively on 4369 short strings and on random strings.",
    "Trusts the independent .hash builder and the transcription of the gABI elf_hash figure.",
    "property-based testing (proptest): inverse oracle (table builder) + linear-scan reference + corruption for soundness; exhaustive enumeration for short hash inputs", "DESIGN.md §5 C12")
add("C13", "exploration",
    "Seeded proptest search over version models (files x aux records, definitions x names, versym arrays with hidden/unknown/local/global entries) laid out by an independent builder in random forward-linked, interleaved, gapped record orders; every symbol index is queried through the stand-alone table, ElfBytes and ElfStream and compared with the model; some models list the reserved indexes 0/1, some files exceed 1 MiB, are padded so that the distance from a version section to EOF is a multiple of 2^16 records, or have about 0xff00 sections; half of the files name a class-sized .dynsym through .gnu.version's sh_link; nth(k) on fresh name and auxiliary iterators must equal the k-th item of repeated next().",
    "Trusts the version-graph builder (GNU symbol-versioning layout) and the file builder; well-formedness as scoped in the statement.",
    "property-based testing (proptest) with an inverse oracle: version-graph model -> section bytes -> queries compared with the model", "DESIGN.md §5 C13")
add("C14", "exploration",
    "Seeded proptest search over note sequences (sizes of every residue, GNU typed notes, name shapes), alignments incl. non-powers of two and huge values, both byte orders and classes, exact/garbage/truncated/corrupted tails, three access paths (segments also over a SHT_NOTE section whose own alignment differs from p_align) plus ElfStream over short-reading/interrupting readers with one transient I/O failure and a retry (first two successful answers must equal the slice parser's notes); judged against an independent reference walker with pointer-exact name/desc ranges; nth/skip/count/last/step_by/size_hint on fresh and partly consumed iterators must agree with repeated next().",
    "Trusts the 40-line reference walker; ambiguous tails (empty descriptor starting in padding beyond the data) are excluded and counted.",
    "property-based testing (proptest) against a reference implementation (note walker)", "DESIGN.md §5 C14")

add("C19", "exploration",
    "Exhaustive enumeration of finite domains against differential references: all ~1175 exported integer constants (extracted from src/abi.rs by build.rs) vs a table derived from glibc <elf.h>, Linux uapi headers and LLVM 14 BinaryFormat with the C/C++ compiler evaluating the macros, plus a hand-transcribed table (from the ABI documents) for 44 names that no installed header defines; size_of/offset_of! of every field of the 16 #[repr(C)] structs vs offsetof on <elf.h>; every to_str helper over u8/u16 AND u32 exhaustively (4 x 2^32 calls in 3-4 s) and, for i64, over all constant values, their neighbours, negations, high-word variants and pseudo-random values; p_flags_to_string's numeric fallback. Enumeration is the right level because the domains are finite lists.",
    "Trusts the installed reference headers (names on which they disagree or which none defines are counted, not judged) and a 9-entry spelling alias table.",
    "exhaustive enumeration with a differential oracle (reference headers evaluated by the C compiler)", "DESIGN.md §5 C19")

add("C01", "exploration",
    "Seeded proptest search over (input bytes x walker arguments): structured rich files with boundary-value header overrides and body corruption (incl. objects described by their dynamic table: DT_SYMTAB/DT_STRTAB/DT_HASH/DT_VERSYM/... holding the run-time addresses of the file's own sections under 1..3, rarely 74+, PT_LOAD pieces, with or without section headers; large version tables; foreign section types; both header tables at one offset), linker-produced samples with field-level overrides/splices/truncations, raw bytes; an allocation-free walker calls every public entry point of the no_std core, incl. the stand-alone parsers on arbitrary sub-slices with offsets up to usize::MAX, alignments up to 2^64-1 and counts up to u64::MAX, under overflow checks and debug assertions; parse_ident is enumerated over every buffer length 0..20. Oracle = no panic (validity monitor); the walker also formats every public type with Debug, drives every iterator through the std adaptors and through direct calls on the concrete iterator types, and asks by-name queries built from the file's own names (and 70 more on the same handle), and formats every note it is handed. The thorough tier adds a coverage-guided libFuzzer campaign over the same oracle.",
    "A panic is caught with catch_unwind; an abort would end the checker with exit 2. 64-bit host only.",
    "property-based testing (proptest) + coverage-guided fuzzing (libFuzzer) with a no-panic monitor; exhaustive enumeration of short ident buffers", "DESIGN.md §5 C01")
add("C06", "exploration",
    "The C01 input domain under a counting global allocator with a per-thread window around the whole slice-parser walk (oracle: zero allocator calls, Ok and Err paths alike), plus exhaustive enumeration of the feature power set: cargo check for all 8 subsets and bare-metal builds (-Zbuild-std=core[,alloc], x86_64-unknown-none) for the 4 subsets without std.",
    "Trusts the allocator shim (every alloc/realloc/alloc_zeroed on the walking thread is counted) and the nightly build-std machinery for the no-std/no-alloc dependency clause.",
    "property-based testing (proptest) with an allocation-counting monitor; exhaustive configuration enumeration with the compiler as oracle", "DESIGN.md §5 C06")

add("C16", "exploration",
    "Seeded proptest search over adversarial link structures built on purpose (SysV chain cycles of every length, GNU chains without stop bit, version records with zero/self/overlapping/out-of-range/32-bit-wrapping links and absurd counts, partial trailing records, iterator adaptors on advanced iterators, Debug formatting of cyclic tables) and over the corrupted-file domain with every iterator driven to bound+1 items, plus stream queries behind readers that over-report their length, were cut after being measured, deliver nothing / fail from some call on, or are healthy (the relocation and note iterators a stream hands out are bounded by their section's byte count; files include relocation sections with a recorded entry size of 0 and header tables designated at one offset); oracle = item-count bounds (one item per input byte, at most the declared count) plus a per-case watchdog (15 s / 20 s / 60 s) whose expiry is the violation. The thorough tier adds a libFuzzer campaign with -timeout.",
    "Liveness-flavoured property decided by a watchdog: a hang is detected, termination is not proved; limits sit far above the worst legitimate walk on the generated sizes.",
    "property-based testing (proptest) with item-count invariants and a hang watchdog; coverage-guided fuzzing (libFuzzer) in the thorough tier", "DESIGN.md §5 C16")

add("C10", "exploration",
    "Exhaustive enumeration of all 256 values of EI_DATA, EI_CLASS and EI_VERSION and of the single-byte magic corruptions on 8 base files x 4 specs x 3 entry points (streams over readers with short reads of 1/7/15 bytes and Interrupted every third read) with the expected error (kind and carried bytes) as oracle; plus seeded proptest search over generated files comparing the full query-digest vector under AnyEndian with the matching fixed spec (differential oracle) and requiring the other fixed spec to reject; UnsupportedElfEndianness may only ever come from an EI_DATA byte outside the spec's set, whatever the rest of the header holds.",
    "Combinations with more than one defect are skipped (counted); little-endian host for the NativeEndian clause.",
    "exhaustive enumeration with an expected-error oracle + differential property-based testing (proptest) AnyEndian vs fixed spec", "DESIGN.md §5 C10")
add("C18", "fault_enumeration",
    "Crash points = prefix lengths: for every generated base file (seeded proptest choice sequences; tables placed early so most prefixes still open) EVERY prefix length is enumerated for files up to 4 KiB (256 boundary+random lengths above), both parsers; metamorphic oracle: each Ok answer of the fixed query plan on the prefix equals the complete file's answer (also parse_ident on every prefix of the first 20 bytes, SectionHeader/ProgramHeader::parse_at at the first entries of both tables on every prefix, and the stream parser behind a reader that cannot seek from its end), and appending arbitrary bytes changes no Ok answer; a sixth of the base files use extended numbering or declare a record-structured section smaller than its body. The 10 linker-produced samples are covered with sampled lengths.",
    "Digests compare content, not error kinds; the extension clause is checked in its sound direction only.",
    "crash-point (prefix) enumeration over property-based generated files with a metamorphic oracle (prefix/extension vs whole file)", "DESIGN.md §5 C18")

add("C03", "exploration",
    "Seeded proptest search over generated files whose section/segment ranges are drawn from boundary pairs (inside, zero-length at 0/mid/EOF/EOF+1, ending at EOF-1/EOF/EOF+1, far outside, overflowing, sharing endpoints, whole file, raw 64-bit), p_memsz != p_filesz always, NOBITS/compressed flags on arbitrary ranges, fabricated headers with arbitrary sh_entsize / ch_type / p_type incl. PT_NULL / p_vaddr / p_align, note alignments incl. 3, 5, 6, 12; the ground truth is the builder's header values; every returned &[u8]/&str (section/segment data, compressed payloads, string-table entries incl. compressed string tables, note names/descriptors/build-ids, section names, symbol names, version requirement/definition strings) is checked by pointer and length against the designated range.",
    "Trusts the file builder's ground truth and the NUL-scan / note reference walkers for sub-ranges.",
    "property-based testing (proptest) with an inverse oracle (file builder ground truth) and pointer-identity checks", "DESIGN.md §5 C03")
add("C05", "exploration",
    "Seeded proptest search over generated files with section counts crossing 0xff00 and program header counts crossing 0xffff (real 4 MiB tables and 'unnecessary' uses of the shdr[0] escape hatches), shstrndx via SHN_XINDEX, tables anywhere incl. touching EOF or cut short, every wrong entsize, offsets forced to 0, wrong sh_entsize on symtab/dynsym/versym/dynamic (also through find_common_data, also with a usable PT_DYNAMIC next to the damaged section), any declared count through extended numbering (incl. counts whose product with the entry size wraps around 2^64), streams that cannot seek from their end, streams with short reads and Interrupted during open; oracle = the statement's rule evaluated by an independent reader on the bytes written; both parsers.",
    "Trusts the independent header reader and the builder; PN_XNUM without a section table is skipped as outside the statement.",
    "property-based testing (proptest) with an inverse oracle (ground-truth layout) and an executable statement of the location rule", "DESIGN.md §5 C05")
add("C20", "exploration",
    "Seeded proptest search over generated objects (each kind present/absent independently, shuffled section order, name pool of prefixes/suffixes/duplicates/non-UTF-8/empty names, sh_link to any section, stripped twins, arbitrary flags and sh_entsize on filler sections, compressed relocation sections, relocation sections ending in a partial entry (the iterators' own last()/count()/next-then-nth and dynamic()'s are compared with the model on both parsers), dynamic tables that describe a symbol table via DT_SYMTAB/DT_STRTAB inside a PT_LOAD, rarely > 0xffff sections); a second sub-check damages one or two header fields of the common sections and requires the one-pass discovery and the targeted accessors to refuse or accept together; differential oracle between access paths (find_common_data vs targeted accessors vs tables rebuilt from section_data, by-name lookup vs manual scan, typed views vs encoded model, .dynamic vs PT_DYNAMIC of the twin), both parsers.",
    "Trusts the object builder's model (encoded entries) and the reference walkers; wrong-type views only need to be refused.",
    "differential property-based testing (proptest) between alternative access paths, with encoder ground truth", "DESIGN.md §5 C20")

add("C07", "exploration",
    "Seeded proptest search over (file bytes: generated/corrupted/sample/raw) x (operation histories of up to 40 stream calls with repetition, incl. fabricated headers whose ranges share a start or an end and recur) x (readers delivering 1..n-byte chunks and Interrupted errors, handed over with the cursor at 0 or elsewhere, in a fifth of the cases failing once with a transient hard error; by-name queries derived from the file's own name table incl. queries with an interior NUL; one generated file in 512 with about 0xff00 filler sections in front; one case in about 16 000 an object whose .symtab links to a 16..18 MiB string table); differential oracle = the slice parser on the same bytes (open coincidence, identical headers, per-op digest equality, exact Ok/Err coincidence for the calls the statement lists, every earlier op re-asked at random). The thorough tier adds a libFuzzer campaign over the same oracle.",
    "Scope exactly as the statement: ops on SHF_COMPRESSED sections and files with a present-but-empty section table are skipped and counted.",
    "differential, history-based property testing (proptest; ops as vec + interpreter) stream parser vs slice parser; libFuzzer in the thorough tier", "DESIGN.md §5 C07")
add("C08", "exploration",
    "Seeded proptest search over stream contents whose headers claim sizes/counts/offsets from the boundary table (small files claiming up to 2^64-1) and layouts with up to 1 MiB of padding, x call histories of up to 40 (8%: 60-150) calls, x chunking/interrupting readers (a fifth failing once with a transient error, a sixteenth unable to seek from their end); validity monitors: no panic, counting allocator window (every single request <= 8*len+4096 (+64 bytes per call made, for the cache's own bookkeeping of caller-chosen ranges); absurd requests park the thread and fail the case), instrumented Read+Seek log (bytes read by open within {ident, header, shdr[0], tables}; by each call within the ranges it designates).",
    "Trusts the allocator shim and the independent header reader that computes the designated ranges; the version-query allowance is an over-approximation (all version sections).",
    "property-based testing (proptest) with resource monitors (allocation-size bound, read-log containment)", "DESIGN.md §5 C08")
add("C17", "fault_enumeration",
    "For each generated base case (file x call history x reader behaviour) the fault-free run counts the I/O calls, then a fault is injected at EVERY single I/O call index for each of error/premature-EOF x transient/permanent plus one error of another io::ErrorKind (Unsupported, WouldBlock, UnexpectedEof, TimedOut, ...) per index (exhaustive single-fault enumeration), plus streams on which every SeekFrom::End fails, plus random multi-fault schedules with short reads; a call that has not returned after 60 s counts as not having returned an error; metamorphic oracle = the fault-free run: the call during which a fault fired returns Err, every other call returns Err or the fault-free answer; the fault-free answers themselves must not depend on how the reader cuts its reads (one base file in 32 has a 64..104 KiB section). Sub-check cache_pressure: 8..97 distinct equal-length ranges read through one handle, one further request while the reader fails (error / EOF / short read followed by either), then every earlier range again in three orders, each answer checked against the file's bytes.",
    "Trusts the fault-injecting reader; Interrupted and short reads are legal behaviour, not failures.",
    "exhaustive single-fault injection over property-based generated histories, metamorphic oracle (fault-free run)", "DESIGN.md §5 C17")

NOT_YET = {}
# thorough tier: coverage-guided search over the generator's choice sequences (fuzz target `choice`)
CHOICE_FUZZ = {"C02": "struct", "C03": "ranges", "C04": "random", "C05": "tables", "C09": "tables", "C10": "equiv", "C11": "wellformed, sound", "C12": "wellformed, sound", "C13": "versions", "C14": "notes", "C15": "random", "C17": "faults", "C20": "paths, damaged"}
for pid, subs in CHOICE_FUZZ.items():
    P[pid]["technique"] += "; thorough tier adds coverage-guided fuzzing (libFuzzer) of the same oracle over the generator's choice sequences"
    P[pid]["text"] += f" In the thorough tier libFuzzer additionally drives the sub-check(s) {subs} with the fuzz input as the generator's choice sequence (coverage feedback from the crate and the generator), a crash being replayed, shrunk and saved as an ordinary replay file."
allp = [json.loads(l)["id"] for l in open("properties.jsonl")]
checks = []
for pid in allp:
    if pid not in P: continue
    d = P[pid]
    checks.append({
        "property_id": pid,
        "quick_cmd": f"./check {pid} quick",
        "thorough_cmd": f"./check {pid} thorough",
        "evidence_file": f"evidence/{pid}.json",
        "replay_cmd_template": f"./check {pid} --replay {{path}}",
        "engine": "verif-checks",
        "level_claimed": {"category": d["cat"], "text": d["text"], "design_ref": d["design"]},
        "level_note": d["note"],
        "technique": d["technique"],
    })
m = {
    "version": 1,
    "setup_cmd": "./setup.sh",
    "hooks": {
        "guard": "cole14_rust_elf_verif",
        "enable": "no source hooks are needed: every observation point is public API, the global allocator of the harness binary, or the Read+Seek object the harness supplies; checks build /repo as a path dependency with debug assertions and overflow checks on",
        "baseline_off_cmd": "cd /repo && cargo test --workspace --no-fail-fast --offline",
        "source_commits": [],
        "add_only": True,
    },
    "engines": [{
        "name": "verif-checks", "path": "harness",
        "serves_properties": [c["property_id"] for c in checks],
        "kind_free_text": "Rust harness: choice-sequence oracles driven by seeded proptest runners (16 fixed streams), exhaustive enumerators for finite sub-domains, libFuzzer targets (thorough tier), replay files; counting/limiting global allocator, instrumented fault-injecting Read+Seek, watchdog",
    }],
    "checks": checks,
    "not_applicable": [{"property_id": p, "reason": NOT_YET.get(p, "check not built yet in this revision of /verif (work in progress; the design in DESIGN.md §5 claims it)")} for p in allp if p not in P],
    "notes": "Exit codes of every command: 0 held on everything explored (KNOWN-FINDING lines allowed), 1 with a VIOLATION line, 2 inconclusive (build failure, stall, harness self-check) - never a violation. VERIF_SEED selects the PRNG streams.",
}
json.dump(m, open("MANIFEST.json", "w"), indent=1)
print("claimed:", [c["property_id"] for c in checks])
