#!/usr/bin/env python3
"""Regenerates MANIFEST.json from the table below (kept next to the checks so they stay in step)."""
import json, sys
P = {}
def add(pid, cat, text, note, technique, design):
    P[pid] = dict(cat=cat, text=text, note=note, technique=technique, design=design)

add("C04", "exploration",
    "Exhaustive enumeration of the u8/u16 sub-domain (every byte value/pair at every position and failing offset of short buffers, all five specs) plus seeded proptest search over all widths, boundary/sign patterns and offsets up to usize::MAX, judged against a shift-and-add reference; the domain is small and closed-form, so enumeration+random search is the natural level.",
    "Trusts the 12-line shift-and-add reference and the 64-bit little-endian host for the NativeEndian clause.",
    "exhaustive enumeration + property-based testing (proptest) against a reference implementation", "DESIGN.md §5 C04")

NOT_YET = {}
allp = [json.loads(l)["id"] for l in open("properties.jsonl")]
checks = []
for pid in allp:
    if pid not in P: continue
    d = P[pid]
    checks.append({
        "property_id": pid,
        "quick_cmd": f"./check {pid} quick",
        "thorough_cmd": f"./check {pid} thorough",
        "evidence_file": f"evidence/{pid}.json",
        "replay_cmd_template": f"./check {pid} --replay {{path}}",
        "engine": "verif-checks",
        "level_claimed": {"category": d["cat"], "text": d["text"], "design_ref": d["design"]},
        "level_note": d["note"],
        "technique": d["technique"],
    })
m = {
    "version": 1,
    "setup_cmd": "./setup.sh",
    "hooks": {
        "guard": "cole14_rust_elf_verif",
        "enable": "no source hooks are needed: every observation point is public API, the global allocator of the harness binary, or the Read+Seek object the harness supplies; checks build /repo as a path dependency with debug assertions and overflow checks on",
        "baseline_off_cmd": "cd /repo && cargo test --workspace --no-fail-fast --offline",
        "source_commits": [],
        "add_only": True,
    },
    "engines": [{
        "name": "verif-checks", "path": "harness",
        "serves_properties": [c["property_id"] for c in checks],
        "kind_free_text": "Rust harness: choice-sequence oracles driven by seeded proptest runners (16 fixed streams), exhaustive enumerators for finite sub-domains, libFuzzer targets (thorough tier), replay files; counting/limiting global allocator, instrumented fault-injecting Read+Seek, watchdog",
    }],
    "checks": checks,
    "not_applicable": [{"property_id": p, "reason": NOT_YET.get(p, "check not built yet in this revision of /verif (work in progress; the design in DESIGN.md §5 claims it)")} for p in allp if p not in P],
    "notes": "Exit codes of every command: 0 held on everything explored (KNOWN-FINDING lines allowed), 1 with a VIOLATION line, 2 inconclusive (build failure, stall, harness self-check) - never a violation. VERIF_SEED selects the PRNG streams.",
}
json.dump(m, open("MANIFEST.json", "w"), indent=1)
print("claimed:", [c["property_id"] for c in checks])
