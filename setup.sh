#!/bin/bash
# Builds the harness offline from files on disk (cargo registry cache + /repo as path dependency) and
# pre-builds the libFuzzer targets used by the thorough tier (nightly toolchain, cargo-fuzz, no sanitizer).
set -e
cd "$(dirname "$0")"
export CARGO_NET_OFFLINE=true
mkdir -p harness/target out evidence
( cd harness && cargo build --release -p verif-checks )
harness/target/release/verif-checks selfcheck all
( cd harness/fuzz && cargo +nightly fuzz build -s none ) || echo "warning: libFuzzer targets did not build; the thorough tier will report its fuzz step as inconclusive"
