#!/bin/bash
# Builds the harness offline from files on disk (cargo registry cache + /repo as path dependency).
set -e
cd "$(dirname "$0")"
export CARGO_NET_OFFLINE=true
mkdir -p harness/target out evidence
( cd harness && cargo build --release -p verif-checks )
harness/target/release/verif-checks selfcheck all
