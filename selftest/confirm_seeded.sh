#!/bin/bash
# Confirms seeded changes in a scratch worktree: patch applies, existing suite unchanged (239 pass / 2 fail /
# doctests pass), demonstration fails with the change and passes without it. Usage: confirm_seeded.sh <dir>...
# where each <dir> holds patch.diff, seeded_demo.rs, meta.json (and, for cooperating-site changes, edit1.diff,
# edit2.diff: each alone must leave the demonstration passing). Prints one line per change.
WT="${CONFIRM_WT:-/tmp/confirm_wt}"
git -C /repo worktree remove --force $WT 2>/dev/null
git -C /repo worktree add -q --detach $WT HEAD || exit 1
for d in "$@"; do
  cd $WT; git checkout -q -- .; rm -rf tests
  if ! git apply --check "$d/patch.diff" 2>/dev/null; then echo "$d APPLY-FAIL"; continue; fi
  git apply "$d/patch.diff"
  out=$(cargo test --offline --no-fail-fast 2>&1)
  lib=$(echo "$out" | grep -E "^test result" | head -1)
  doc=$(echo "$out" | grep -E "^test result" | tail -1)
  suite_ok=no; echo "$lib" | grep -q "239 passed; 2 failed" && echo "$doc" | grep -q "6 passed; 0 failed" && suite_ok=yes
  mkdir -p tests; cp "$d/seeded_demo.rs" tests/seeded_demo.rs
  cargo test --offline --test seeded_demo >/tmp/confirm_demo.out 2>&1; with=$?
  git checkout -q -- src
  cargo test --offline --test seeded_demo >/tmp/confirm_demo2.out 2>&1; without=$?
  singles=""
  for e in "$d"/edit[0-9].diff; do
    [ -f "$e" ] || continue
    git checkout -q -- src
    if git apply "$e" 2>/dev/null; then cargo test --offline --test seeded_demo >/tmp/confirm_demo3.out 2>&1; singles="$singles $(basename $e .diff)_alone_rc=$?"; else singles="$singles $(basename $e .diff)=APPLY-FAIL"; fi
  done
  git checkout -q -- src
  echo "$d suite_unchanged=$suite_ok demo_with_change_rc=$with demo_without_change_rc=$without$singles"
done
cd /; git -C /repo worktree remove --force $WT
