#!/bin/bash
# selftest/scratch_copy.sh <dir>: a self-contained copy of /verif (without build output) and a worktree of /repo under
# <dir>, with the harness pointed at the scratch repo, so that sweeps over seeded changes do not block work in /verif
# and /repo. Use:  VERIF_DIR=<dir>/verif REPO_DIR=<dir>/repo VERIF_REPO=<dir>/repo <dir>/verif/selftest/run_seeded.sh quick
set -e
D="$1"; rm -rf "$D/verif"; git -C /repo worktree remove --force "$D/repo" 2>/dev/null || true
mkdir -p "$D"
rsync -a --exclude harness/target --exclude harness/fuzz/target --exclude out --exclude .git /verif/ "$D/verif/"
git -C /repo worktree add -q --detach "$D/repo" HEAD
sed -i "s|path = \"/repo\"|path = \"$D/repo\"|" "$D/verif/harness/checks/Cargo.toml"
echo "scratch copy ready in $D"
