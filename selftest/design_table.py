#!/usr/bin/env python3
"""Regenerates the per-change table of DESIGN.md 11.4 from seeded/*/meta.json (run selftest/make_table.py first)."""
import json, os
p = "/verif/DESIGN.md"
L = open(p).read().split("\n")
h = next(i for i, l in enumerate(L) if l.startswith("| id | property | caught by own check"))
e = h
while e < len(L) and L[e].startswith("|"):
    e += 1
rows = [L[h], L[h + 1]]
for sid in sorted(x for x in os.listdir("/verif/seeded") if not x.startswith("_")):
    m = json.load(open(f"/verif/seeded/{sid}/meta.json"))
    d = m.get("detection", {})
    rows.append("| %s | %s | %s | %s | %s | %s |" % (sid, m["property"], "yes" if d.get("detected") else "no", d.get("seconds_incl_rebuild", ""), (m.get("also_detected_by") or "")[:60].replace("|", "/"), (m.get("summary") or "").replace("|", "/").replace("\n", " ")[:140]))
L[h:e] = rows
open(p, "w").write("\n".join(L))
print(len(rows) - 2, "rows")
