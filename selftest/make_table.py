#!/usr/bin/env python3
"""Writes selftest/SEEDED.md (one row per seeded change: what it is, what it needs, which check caught it, seconds)
from seeded/*/meta.json and a results file of selftest/run_seeded.sh; also stores the result in each meta.json."""
import json, os, sys
res = {}
path = sys.argv[1] if len(sys.argv) > 1 else "/verif/selftest/seeded_results.tsv"
for l in open(path, errors="replace"):
    f = l.rstrip("\n").split("\t")
    if len(f) >= 4 and f[0].startswith("C"):
        res[f[0]] = dict(prop=f[1], rc=f[2], secs=f[3], msg=(f[4] if len(f) > 4 else "").strip())
rows = []
for sid in sorted(x for x in os.listdir("/verif/seeded") if not x.startswith("_")):
    mp = f"/verif/seeded/{sid}/meta.json"
    m = json.load(open(mp))
    r = res.get(sid)
    if r:
        m["detection"] = {"ran": f"git -C /repo apply /verif/seeded/{sid}/patch.diff; ./check {r['prop']} quick; git -C /repo checkout -- .",
                          "exit_code": int(r["rc"]) if r["rc"].isdigit() else r["rc"], "seconds_incl_rebuild": int(r["secs"]) if r["secs"].isdigit() else None,
                          "detected": r["rc"] == "1", "first_message": r["msg"][:400]}
        json.dump(m, open(mp, "w"), indent=1)
    d = m.get("detection", {})
    extra = m.get("also_detected_by", "")
    rows.append((sid, m["property"], (m.get("summary") or "").replace("|", "/").replace("\n", " ")[:230], (m.get("needs") or "").replace("|", "/").replace("\n", " ")[:200],
                 "yes" if d.get("detected") else ("NO" if d else "?"), d.get("seconds_incl_rebuild", ""), extra))
with open("/verif/selftest/SEEDED.md", "w") as f:
    f.write("# Seeded changes and which check catches them\n\nEach change was written by a fresh sub-agent from the property text alone, confirmed by me in a scratch worktree (suite unchanged: 239 pass / 2 fail / 6 doctests; demonstration fails with the change, passes without), then applied to /repo, checked with `./check <property> quick` and reverted. Seconds include the 5-8 s rebuild of the harness against the changed crate.\n\n")
    f.write("| id | property | change | needs | caught by its property's quick check | s | notes |\n|---|---|---|---|---|---|---|\n")
    for r in rows:
        f.write("| " + " | ".join(str(x) for x in r) + " |\n")
    n = len(rows); y = sum(1 for r in rows if r[4] == "yes")
    f.write(f"\n{y} of {n} caught by the quick check of the property the change was written against.\n")
print(f"{sum(1 for r in rows if r[4]=='yes')}/{len(rows)}")
