#!/bin/bash
# selftest/run_seeded.sh [tier] [ids...]: apply each seeded change to /repo, run the quick check of its property,
# revert, and record the outcome in selftest/seeded_results.tsv (id, property, rc, seconds, first message).
TIER="${1:-quick}"; shift
V="${VERIF_DIR:-/verif}"; R="${REPO_DIR:-/repo}"
cd "$V"
# evidence files are rewritten by every run: keep the ones from the unchanged tree
EVBAK=$(mktemp -d); cp -a evidence/. $EVBAK/ 2>/dev/null
trap 'cp -a $EVBAK/. $V/evidence/ 2>/dev/null; rm -rf $EVBAK' EXIT
IDS="${@:-$(ls seeded | grep -v ^_)}"
for id in $IDS; do
  d=seeded/$id; prop=$(python3 -c "import json;print(json.load(open('$d/meta.json'))['property'])")
  git -C $R checkout -q -- . ; git -C $R apply $V/$d/patch.diff || { echo -e "$id\t$prop\tAPPLY-FAIL"; continue; }
  t0=$(date +%s); out=$(./check $prop $TIER 2>&1); rc=$?; t1=$(date +%s)
  git -C $R checkout -q -- .
  msg=$(echo "$out" | grep -A1 VIOLATION | grep -v VIOLATION | head -1 | cut -c1-300)
  echo -e "$id\t$prop\t$rc\t$((t1-t0))\t$msg"
done
