#!/bin/bash
# selftest/run_refactors.sh <dir>...: each <dir> holds a behaviour-preserving patch.diff. Applies it to /repo, runs
# every quick check, reverts (VERIF_DIR / REPO_DIR select a scratch copy made by scratch_copy.sh); prints one line per (refactor, check) that did not exit 0, and a summary line.
V="${VERIF_DIR:-/verif}"; R="${REPO_DIR:-/repo}"
cd "$V"
# evidence files are rewritten by every run: keep the ones from the unchanged tree
EVBAK=$(mktemp -d); cp -a evidence/. $EVBAK/ 2>/dev/null
trap 'cp -a $EVBAK/. $V/evidence/ 2>/dev/null; rm -rf $EVBAK' EXIT
for d in "$@"; do
  git -C $R checkout -q -- .
  if ! git -C $R apply "$d/patch.diff" 2>/dev/null; then echo "$d APPLY-FAIL"; continue; fi
  bad=0
  near=$(python3 -c "import json;print(json.load(open('$d/meta.json')).get('near_property',''))" 2>/dev/null)
  for i in $(seq -w 1 20); do
    # OTHERS_SCALE (e.g. 0.3) shortens the checks of the properties the control was not written near
    if [ -n "$OTHERS_SCALE" ] && [ "C$i" != "$near" ]; then out=$(VERIF_SCALE=$OTHERS_SCALE ./check C$i quick 2>&1); rc=$?; else out=$(./check C$i quick 2>&1); rc=$?; fi
    if [ $rc -ne 0 ]; then bad=$((bad+1)); echo "$d C$i rc=$rc $(echo "$out" | grep -A1 -E 'VIOLATION|INCONCLUSIVE' | grep -v VIOLATION | head -1 | cut -c1-400)"; fi
  done
  git -C $R checkout -q -- .
  echo "$d done alarms=$bad"
done
