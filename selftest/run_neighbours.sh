#!/bin/bash
# selftest/run_neighbours.sh <ids...>: apply each seeded change (VERIF_DIR / REPO_DIR select a scratch copy), run every
# quick check, revert; prints one line per id listing the properties whose check reported a violation.
V="${VERIF_DIR:-/verif}"; R="${REPO_DIR:-/repo}"
cd "$V"
EVBAK=$(mktemp -d); cp -a evidence/. $EVBAK/ 2>/dev/null
trap 'cp -a $EVBAK/. $V/evidence/ 2>/dev/null; rm -rf $EVBAK' EXIT
for id in "$@"; do
  git -C $R checkout -q -- . ; git -C $R apply $V/seeded/$id/patch.diff || { echo "$id APPLY-FAIL"; continue; }
  hit=""
  for i in $(seq -w 1 20); do
    out=$(./check C$i quick 2>&1); rc=$?
    [ $rc -ne 0 ] && hit="$hit C$i(rc=$rc)"
  done
  git -C $R checkout -q -- .
  echo "$id caught_by:$hit"
done
