#!/bin/bash
# selftest/all.sh [tier] [seed...]   runs every registered check on the current tree; prints exit code and seconds
TIER="${1:-quick}"; shift
SEEDS="${@:-0}"
cd "$(dirname "$0")/.."
for s in $SEEDS; do
  for i in $(seq -w 1 20); do
    id=C$i; t0=$(date +%s.%N)
    out=$(VERIF_SEED=$s ./check $id $TIER 2>&1); rc=$?
    t1=$(date +%s.%N)
    printf "%s seed=%s rc=%d %.1fs %s\n" $id $s $rc $(echo "$t1-$t0"|bc) "$(echo "$out" | grep -E 'VIOLATION|INCONCLUSIVE|KNOWN' | head -2 | tr '\n' ' ')"
  done
done
