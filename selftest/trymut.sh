#!/bin/bash
# selftest/trymut.sh <patch.diff> <ID> [tier]   apply a seeded change to /repo, run the check, revert.
set -u
P="$1"; ID="$2"; TIER="${3:-quick}"
cd /verif
EVBAK=$(mktemp -d); cp -a evidence/. $EVBAK/ 2>/dev/null
trap 'cp -a $EVBAK/. /verif/evidence/ 2>/dev/null; rm -rf $EVBAK' EXIT
git -C /repo apply "$P" || { echo "patch does not apply"; exit 3; }
start=$(date +%s)
./check "$ID" "$TIER" > /tmp/trymut.$$.out 2>&1; rc=$?
end=$(date +%s)
git -C /repo checkout -- . 
echo "rc=$rc secs=$((end-start))"; grep -E "VIOLATION|subcheck=|INCONCLUSIVE|KNOWN" /tmp/trymut.$$.out | head -6
rm -f /tmp/trymut.$$.out
