//! Instrumented + fault-injecting `Read + Seek` over an in-memory file. State is shared through
//! `Rc<RefCell<_>>` so the log can be inspected between calls while `ElfStream` owns the reader.

use std::cell::RefCell;
use std::io::{self, Read, Seek, SeekFrom};
use std::rc::Rc;

#[derive(Clone, Copy, Debug, PartialEq, Eq)]
pub enum FaultKind {
    /// the I/O call returns Err(ErrorKind::Other)
    Error,
    /// a read returns Ok(0) although bytes remain (premature EOF); a seek fault of this kind is an Error
    Eof,
    /// a read returns fewer bytes than requested (legal; not a failure)
    Short,
}

#[derive(Clone, Copy, Debug)]
pub struct Fault {
    /// index of the I/O call (seeks and reads both count) at which the fault fires
    pub at: u64,
    pub kind: FaultKind,
    /// which io::ErrorKind an Error fault carries (index into ERROR_KINDS)
    pub ekind: u8,
    /// permanent: every call from `at` on fails the same way
    pub permanent: bool,
}

pub const ERROR_KINDS: [io::ErrorKind; 8] = [io::ErrorKind::Other, io::ErrorKind::Unsupported, io::ErrorKind::WouldBlock, io::ErrorKind::UnexpectedEof, io::ErrorKind::TimedOut, io::ErrorKind::PermissionDenied, io::ErrorKind::InvalidData, io::ErrorKind::BrokenPipe];

#[derive(Clone, Copy, Debug, PartialEq, Eq)]
pub enum Op {
    Seek { to: u64 },
    /// pos: stream position before the read; req: buffer length; got: bytes delivered
    Read { pos: u64, req: usize, got: usize },
    Fault { call: u64, kind: FaultKind },
    Interrupted,
}

#[derive(Default)]
pub struct State {
    pub data: Vec<u8>,
    pub pos: u64,
    pub calls: u64,
    pub log: Vec<Op>,
    pub faults: Vec<Fault>,
    /// number of error/EOF faults that fired so far
    pub fired: u64,
    /// chunking script: each read delivers at most chunk[i % len] bytes (0 = unlimited)
    pub chunks: Vec<usize>,
    pub chunk_i: usize,
    /// return ErrorKind::Interrupted before every n-th read (0 = never)
    pub interrupt_every: u64,
    pub reads: u64,
    pub logging: bool,
    /// a stream that cannot seek relative to its end: every SeekFrom::End fails with ERROR_KINDS[k] (counted as a
    /// fired fault); SeekFrom::Start and reads work
    pub seek_end_fails: Option<u8>,
    /// the stream claims to be this much longer than the bytes it can deliver (a file truncated after it was
    /// measured): SeekFrom::End counts from data.len() + phantom_len, reads past data.len() return Ok(0)
    pub phantom_len: u64,
}

#[derive(Clone)]
pub struct Reader {
    pub st: Rc<RefCell<State>>,
}

impl Reader {
    pub fn new(data: Vec<u8>) -> Reader {
        Reader { st: Rc::new(RefCell::new(State { data, logging: true, ..Default::default() })) }
    }
    pub fn with(data: Vec<u8>, chunks: Vec<usize>, interrupt_every: u64, faults: Vec<Fault>) -> Reader {
        Reader { st: Rc::new(RefCell::new(State { data, chunks, interrupt_every, faults, logging: true, ..Default::default() })) }
    }
    /// Hand the reader over with its cursor somewhere else than the start (a caller that sniffed the magic
    /// first, or reuses a handle): legal for a Read+Seek.
    pub fn at_position(self, pos: u64) -> Reader {
        self.st.borrow_mut().pos = pos;
        self
    }
    pub fn without_seek_end(self, ekind: u8) -> Reader {
        self.st.borrow_mut().seek_end_fails = Some(ekind);
        self
    }
    pub fn over_reporting(self, extra: u64) -> Reader {
        self.st.borrow_mut().phantom_len = extra;
        self
    }
    pub fn calls(&self) -> u64 {
        self.st.borrow().calls
    }
    pub fn fired(&self) -> u64 {
        self.st.borrow().fired
    }
    pub fn take_log(&self) -> Vec<Op> {
        std::mem::take(&mut self.st.borrow_mut().log)
    }
    pub fn clear_faults(&self) {
        self.st.borrow_mut().faults.clear();
    }
}

fn fault_for(st: &State, call: u64) -> Option<(FaultKind, io::ErrorKind)> {
    for f in &st.faults {
        if f.at == call || (f.permanent && call >= f.at) {
            return Some((f.kind, ERROR_KINDS[f.ekind as usize % ERROR_KINDS.len()]));
        }
    }
    None
}

impl Read for Reader {
    fn read(&mut self, buf: &mut [u8]) -> io::Result<usize> {
        let w = crate::alloc::pause();
        let r = self.read_inner(buf);
        crate::alloc::resume(w);
        r
    }
}

impl Reader {
    fn read_inner(&mut self, buf: &mut [u8]) -> io::Result<usize> {
        let mut st = self.st.borrow_mut();
        st.reads += 1;
        if st.interrupt_every != 0 && st.reads % st.interrupt_every == 0 {
            if st.logging {
                st.log.push(Op::Interrupted);
            }
            // an Interrupted return is not an I/O call index of its own: the retry is the call
            return Err(io::Error::new(io::ErrorKind::Interrupted, "interrupted"));
        }
        let call = st.calls;
        st.calls += 1;
        let mut limit = usize::MAX;
        match fault_for(&st, call) {
            Some((FaultKind::Error, ek)) => {
                st.fired += 1;
                if st.logging {
                    st.log.push(Op::Fault { call, kind: FaultKind::Error });
                }
                return Err(io::Error::new(ek, "injected read error"));
            }
            Some((FaultKind::Eof, _)) => {
                if !buf.is_empty() {
                    st.fired += 1;
                    if st.logging {
                        st.log.push(Op::Fault { call, kind: FaultKind::Eof });
                    }
                    return Ok(0);
                }
            }
            Some((FaultKind::Short, _)) => {
                limit = 1.max(buf.len() / 2);
            }
            None => {}
        }
        if !st.chunks.is_empty() {
            let c = st.chunks[st.chunk_i % st.chunks.len()];
            st.chunk_i += 1;
            if c != 0 {
                limit = limit.min(c);
            }
        }
        let pos = st.pos;
        let avail = (st.data.len() as u64).saturating_sub(pos) as usize;
        let n = buf.len().min(avail).min(limit);
        if n > 0 {
            let p = pos as usize;
            buf[..n].copy_from_slice(&st.data[p..p + n]);
        }
        st.pos = pos + n as u64;
        if st.logging {
            st.log.push(Op::Read { pos, req: buf.len(), got: n });
        }
        Ok(n)
    }
}

impl Seek for Reader {
    fn seek(&mut self, to: SeekFrom) -> io::Result<u64> {
        let w = crate::alloc::pause();
        let r = self.seek_inner(to);
        crate::alloc::resume(w);
        r
    }
}

impl Reader {
    fn seek_inner(&mut self, to: SeekFrom) -> io::Result<u64> {
        let mut st = self.st.borrow_mut();
        let call = st.calls;
        st.calls += 1;
        match fault_for(&st, call) {
            Some((FaultKind::Error, ek)) | Some((FaultKind::Eof, ek)) => {
                st.fired += 1;
                if st.logging {
                    st.log.push(Op::Fault { call, kind: FaultKind::Error });
                }
                return Err(io::Error::new(ek, "injected seek error"));
            }
            _ => {}
        }
        if let (Some(k), SeekFrom::End(_)) = (st.seek_end_fails, to) {
            st.fired += 1;
            if st.logging {
                st.log.push(Op::Fault { call, kind: FaultKind::Error });
            }
            return Err(io::Error::new(ERROR_KINDS[k as usize % ERROR_KINDS.len()], "this stream cannot seek from its end"));
        }
        let len = st.data.len() as i128 + st.phantom_len as i128;
        let new: i128 = match to {
            SeekFrom::Start(p) => p as i128,
            SeekFrom::End(d) => len + d as i128,
            SeekFrom::Current(d) => st.pos as i128 + d as i128,
        };
        if new < 0 || new > u64::MAX as i128 {
            return Err(io::Error::new(io::ErrorKind::InvalidInput, "seek before start"));
        }
        st.pos = new as u64;
        if st.logging {
            let p = st.pos;
            st.log.push(Op::Seek { to: p });
        }
        Ok(st.pos)
    }
}

/// Union of byte ranges actually delivered by reads in a log, merged and sorted.
pub fn read_ranges(log: &[Op]) -> Vec<(u64, u64)> {
    let mut v: Vec<(u64, u64)> = log
        .iter()
        .filter_map(|o| match o {
            Op::Read { pos, got, .. } if *got > 0 => Some((*pos, *pos + *got as u64)),
            _ => None,
        })
        .collect();
    v.sort();
    let mut out: Vec<(u64, u64)> = vec![];
    for (s, e) in v {
        if let Some(l) = out.last_mut() {
            if s <= l.1 {
                l.1 = l.1.max(e);
                continue;
            }
        }
        out.push((s, e));
    }
    out
}

/// Is every byte of `ranges` inside the union of `allowed`?
pub fn covered(ranges: &[(u64, u64)], allowed: &[(u64, u64)]) -> Result<(), (u64, u64)> {
    let mut a: Vec<(u64, u64)> = allowed.iter().copied().filter(|(s, e)| e > s).collect();
    a.sort();
    let mut merged: Vec<(u64, u64)> = vec![];
    for (s, e) in a {
        if let Some(l) = merged.last_mut() {
            if s <= l.1 {
                l.1 = l.1.max(e);
                continue;
            }
        }
        merged.push((s, e));
    }
    for &(s, e) in ranges {
        if e <= s {
            continue;
        }
        if !merged.iter().any(|&(as_, ae)| as_ <= s && e <= ae) {
            return Err((s, e));
        }
    }
    Ok(())
}
