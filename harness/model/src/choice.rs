//! Choice-sequence decoder: a byte string read left to right; exhausted input reads as zero, so the
//! empty string is the simplest case. Indices are mapped monotonically (`x*n >> bits`), never `%`,
//! so shrinking bytes shrinks the decoded structure. Allocation-free except for `bytes()`/`vec_*`.

#[derive(Clone, Debug)]
pub struct Choice<'a> {
    data: &'a [u8],
    pos: usize,
}

/// Boundary values injected into size/offset/count/link fields.
pub const BOUNDARY: &[u64] = &[
    0,
    1,
    2,
    3,
    4,
    7,
    8,
    0xf,
    0x10,
    0x7f,
    0x80,
    0xff,
    0x100,
    0x7fff,
    0x8000,
    0xff00,
    0xff01,
    0xfffe,
    0xffff,
    0x10000,
    0x7fff_ffff,
    0x8000_0000,
    0xffff_fffe,
    0xffff_ffff,
    0x1_0000_0000,
    0x7fff_ffff_ffff_ffff,
    0x8000_0000_0000_0000,
    0xffff_ffff_ffff_fffe,
    0xffff_ffff_ffff_ffff,
];

thread_local! {
    /// set when a decoder on this thread read past the end of its sequence (generator health: such a case
    /// continues with zeros, i.e. with the simplest choices)
    pub static RAN_OUT: std::cell::Cell<bool> = const { std::cell::Cell::new(false) };
}

/// Reset / read the per-thread "a decoder read past the end of its sequence" flag.
pub fn take_ran_out() -> bool {
    RAN_OUT.with(|r| r.replace(false))
}

impl<'a> Choice<'a> {
    pub fn new(data: &'a [u8]) -> Self {
        Choice { data, pos: 0 }
    }
    #[inline]
    pub fn u8(&mut self) -> u8 {
        if self.pos >= self.data.len() {
            RAN_OUT.with(|r| r.set(true));
        }
        let v = self.data.get(self.pos).copied().unwrap_or(0);
        self.pos = self.pos.saturating_add(1);
        v
    }
    pub fn exhausted(&self) -> bool {
        self.pos >= self.data.len()
    }
    pub fn consumed(&self) -> usize {
        self.pos.min(self.data.len())
    }
    pub fn remaining(&self) -> usize {
        self.data.len().saturating_sub(self.pos)
    }
    #[inline]
    pub fn u16(&mut self) -> u16 {
        ((self.u8() as u16) << 8) | self.u8() as u16
    }
    #[inline]
    pub fn u32(&mut self) -> u32 {
        ((self.u16() as u32) << 16) | self.u16() as u32
    }
    #[inline]
    pub fn u64(&mut self) -> u64 {
        ((self.u32() as u64) << 32) | self.u32() as u64
    }
    #[inline]
    pub fn bool(&mut self) -> bool {
        self.u8() & 1 == 1
    }
    /// true with probability num/256
    #[inline]
    pub fn chance(&mut self, num: u32) -> bool {
        (self.u8() as u32) < num
    }
    /// Uniform-ish value in 0..n (n==0 gives 0), monotone in the consumed bytes.
    #[inline]
    pub fn below(&mut self, n: u64) -> u64 {
        if n <= 1 {
            return 0;
        }
        if n <= 1 << 8 {
            (self.u8() as u64 * n) >> 8
        } else if n <= 1 << 16 {
            (self.u16() as u64 * n) >> 16
        } else if n <= 1 << 32 {
            (self.u32() as u64 * n) >> 32
        } else {
            ((self.u64() as u128 * n as u128) >> 64) as u64
        }
    }
    #[inline]
    pub fn range(&mut self, lo: u64, hi_incl: u64) -> u64 {
        lo + self.below(hi_incl - lo + 1)
    }
    #[inline]
    pub fn idx(&mut self, n: usize) -> usize {
        self.below(n as u64) as usize
    }
    #[inline]
    pub fn pick<'t, T>(&mut self, table: &'t [T]) -> &'t T {
        &table[self.idx(table.len())]
    }
    /// index chosen with the given weights (sum <= 65536)
    pub fn weighted(&mut self, weights: &[u32]) -> usize {
        let total: u32 = weights.iter().sum();
        let mut x = self.below(total as u64) as u32;
        for (i, w) in weights.iter().enumerate() {
            if x < *w {
                return i;
            }
            x -= *w;
        }
        weights.len() - 1
    }
    /// A value of `bits` width: boundary values (truncated to the width), small values, raw bits,
    /// all-ones patterns.
    pub fn val(&mut self, bits: u32) -> u64 {
        let mask = if bits >= 64 { u64::MAX } else { (1u64 << bits) - 1 };
        match self.below(12) {
            0 | 1 => self.below(17),
            // a fuzzing dictionary: four-byte ASCII words from the ELF world, in either byte order
            11 => {
                let w = *self.pick(&[*b"ZLIB", *b"zlib", *b"ZSTD", *b"GNU\0", *b"\x7fELF", *b"CORE", *b"LINU", *b".gnu", *b".deb", *b"FDO\0"]);
                let v = if self.bool() { u32::from_le_bytes(w) } else { u32::from_be_bytes(w) };
                v as u64 & mask
            }
            // a small value as it looks when read in the other byte order
            9 => {
                let small = 1 + self.below(17);
                match bits {
                    0..=8 => small,
                    9..=16 => (small as u16).swap_bytes() as u64,
                    17..=32 => (small as u32).swap_bytes() as u64,
                    _ => small.swap_bytes(),
                }
            }
            // a count whose product with a structure size wraps around 2^bits to something small:
            // ceil(k * 2^bits / size) + small
            10 => {
                let size = *self.pick(&[2u128, 4, 8, 12, 16, 20, 24, 32, 40, 56, 64]);
                let k = 1 + self.below(3) as u128;
                let w: u128 = if bits >= 64 { 1u128 << 64 } else { 1u128 << bits };
                let v = (k * w + size - 1) / size + self.below(6) as u128;
                v as u64 & mask
            }
            2 | 3 => *self.pick(BOUNDARY) & mask,
            4 => self.u8() as u64,
            5 => self.u16() as u64 & mask,
            6 => self.u32() as u64 & mask,
            7 => self.u64() & mask,
            // a small value above a 2^32 / 2^16 multiple: invisible to code that is right for small values
            // and for all-ones patterns, but not to code that truncates to a narrower integer
            _ => {
                let small = self.below(70);
                let hi = 1 + self.below(6);
                let sh = *self.pick(&[32u32, 32, 32, 16, 48, 8]);
                ((hi << sh) | small) & mask
            }
        }
    }
    /// raw value of `bits` width, uniformly distributed
    pub fn raw(&mut self, bits: u32) -> u64 {
        let mask = if bits >= 64 { u64::MAX } else { (1u64 << bits) - 1 };
        let v = match bits {
            0..=8 => self.u8() as u64,
            9..=16 => self.u16() as u64,
            17..=32 => self.u32() as u64,
            _ => self.u64(),
        };
        v & mask
    }
    /// value with "interesting" bit patterns for field-decoding checks: top bit set, per-byte distinct
    pub fn field(&mut self, bits: u32) -> u64 {
        let mask = if bits >= 64 { u64::MAX } else { (1u64 << bits) - 1 };
        match self.below(8) {
            0 => 0,
            1 => mask,
            2 => mask >> 1,
            3 => (mask >> 1) + 1,
            4 => 0x0102_0304_0506_0708u64.wrapping_mul(self.u8() as u64 | 1) & mask,
            5 => *self.pick(BOUNDARY) & mask,
            _ => self.raw(bits),
        }
    }
    pub fn bytes(&mut self, k: usize) -> Vec<u8> {
        let mut v = Vec::with_capacity(k);
        for _ in 0..k {
            v.push(self.u8());
        }
        v
    }
    /// The next `k` bytes (or fewer) as a slice of the underlying sequence (allocation-free).
    pub fn take(&mut self, k: usize) -> &'a [u8] {
        let p = self.pos.min(self.data.len());
        let e = p.saturating_add(k).min(self.data.len());
        self.pos = self.pos.saturating_add(k);
        &self.data[p..e]
    }
    /// The unread tail (raw mode: the tail *is* the payload).
    pub fn rest(&mut self) -> &'a [u8] {
        let p = self.pos.min(self.data.len());
        self.pos = self.data.len();
        &self.data[p..]
    }
    /// Split off the next `k` bytes (or fewer) as an independent sub-decoder.
    pub fn sub(&mut self, k: usize) -> Choice<'a> {
        let p = self.pos.min(self.data.len());
        let e = (p + k).min(self.data.len());
        self.pos = self.pos.saturating_add(k);
        Choice { data: &self.data[p..e], pos: 0 }
    }
}

/// splitmix64 step; used for deriving stream seeds and for cheap deterministic filler bytes that
/// are a pure function of the case.
#[inline]
pub fn splitmix(x: &mut u64) -> u64 {
    *x = x.wrapping_add(0x9e37_79b9_7f4a_7c15);
    let mut z = *x;
    z = (z ^ (z >> 30)).wrapping_mul(0xbf58_476d_1ce4_e5b9);
    z = (z ^ (z >> 27)).wrapping_mul(0x94d0_49bb_1331_11eb);
    z ^ (z >> 31)
}

pub fn fill(seed: u64, out: &mut [u8]) {
    let mut s = seed;
    for ch in out.chunks_mut(8) {
        let v = splitmix(&mut s).to_le_bytes();
        ch.copy_from_slice(&v[..ch.len()]);
    }
}

pub fn fnv64(data: &[u8]) -> u64 {
    let mut h: u64 = 0xcbf2_9ce4_8422_2325;
    for b in data {
        h ^= *b as u64;
        h = h.wrapping_mul(0x0000_0100_0000_01b3);
    }
    h
}

pub fn hex(data: &[u8]) -> String {
    let mut s = String::with_capacity(data.len() * 2);
    for b in data {
        s.push_str(&format!("{:02x}", b));
    }
    s
}

pub fn unhex(s: &str) -> Option<Vec<u8>> {
    let s = s.trim();
    if s.len() % 2 != 0 {
        return None;
    }
    (0..s.len() / 2).map(|i| u8::from_str_radix(&s[2 * i..2 * i + 2], 16).ok()).collect()
}
