//! File model, layout and override operators. The builder returns the bytes AND the ground truth
//! (where every structure was placed, what every header field holds after overrides).

use crate::choice::{fill, Choice};
use crate::elfw::*;

#[derive(Clone, Debug, Default)]
pub struct Sec {
    pub name: Vec<u8>,
    /// sh_name/sh_offset/sh_size are filled in by the builder (unless `fixed_*`), the rest is taken as is
    pub hdr: Shdr,
    pub body: Vec<u8>,
    /// body occupies no file space (SHT_NOBITS); sh_size is taken from hdr.sh_size
    pub no_space: bool,
    /// keep hdr.sh_offset / hdr.sh_size as given (fabricated ranges)
    pub fixed_range: bool,
    pub align: usize,
}

#[derive(Clone, Debug, Default)]
pub struct Seg {
    pub hdr: Phdr,
    /// if Some(i): p_offset/p_filesz designate section i's body (p_memsz is left as given)
    pub covers: Option<usize>,
}

#[derive(Clone, Copy, Debug, PartialEq, Eq)]
pub enum Piece {
    Phdrs,
    Shdrs,
    Body(usize),
}

#[derive(Clone, Copy, Debug, PartialEq, Eq)]
pub enum Target {
    Ehdr,
    Shdr(usize),
    Phdr(usize),
}

#[derive(Clone, Debug)]
pub struct Override {
    pub target: Target,
    pub field: &'static str,
    pub value: u64,
}

#[derive(Clone, Debug)]
pub struct FileSpec {
    pub enc: Enc,
    pub ehdr: Ehdr,
    pub secs: Vec<Sec>,
    pub segs: Vec<Seg>,
    /// index of the section-name string table (its body is generated from the section names)
    pub shstrndx: Option<usize>,
    /// order of the pieces after the ELF header; pieces not listed are appended in default order
    pub order: Vec<Piece>,
    /// gap (padding bytes) before piece k of the final order
    pub gaps: Vec<usize>,
    pub gap_seed: u64,
    pub tail_pad: usize,
    pub overrides: Vec<Override>,
    /// emit a section header table even when there are no sections
    pub force_shdrs: bool,
    /// leave out the table although sections/segments exist (stripped twin)
    pub omit_shdrs: bool,
    pub omit_phdrs: bool,
    /// use the extended numbering escape hatches when needed (shnum >= 0xff00, phnum >= 0xffff, shstrndx >= 0xff00)
    pub extended: bool,
}

impl FileSpec {
    pub fn new(enc: Enc) -> FileSpec {
        FileSpec {
            enc,
            ehdr: Ehdr { ident: ident(enc, 0, 0), e_type: 3, e_machine: 62, e_version: 1, e_ehsize: ehdr_size(enc) as u16, ..Default::default() },
            secs: vec![],
            segs: vec![],
            shstrndx: None,
            order: vec![],
            gaps: vec![],
            gap_seed: 0,
            tail_pad: 0,
            overrides: vec![],
            force_shdrs: false,
            omit_shdrs: false,
            omit_phdrs: false,
            extended: true,
        }
    }
    pub fn add_sec(&mut self, name: &[u8], sh_type: u32, body: Vec<u8>) -> usize {
        self.secs.push(Sec { name: name.to_vec(), hdr: Shdr { sh_type, sh_addralign: 1, ..Default::default() }, body, align: 1, ..Default::default() });
        self.secs.len() - 1
    }
}

#[derive(Clone, Debug, Default)]
pub struct Built {
    pub bytes: Vec<u8>,
    pub enc_c64: bool,
    pub enc_le: bool,
    /// header values as the file holds them (after overrides and ELF32 truncation)
    pub ehdr: Ehdr,
    pub shdrs: Vec<Shdr>,
    pub phdrs: Vec<Phdr>,
    /// true section/program header counts written to the tables
    pub shoff: usize,
    pub phoff: usize,
    pub has_shdrs: bool,
    pub has_phdrs: bool,
    /// where each section body was really placed (offset, len); no_space bodies have len 0
    pub body_at: Vec<(usize, usize)>,
    pub shstrtab: Vec<u8>,
    pub used_xnum: bool,
}

impl Built {
    pub fn enc(&self) -> Enc {
        Enc { c64: self.enc_c64, le: self.enc_le }
    }
}

pub fn set_shdr_field(h: &mut Shdr, f: &str, v: u64) {
    match f {
        "sh_name" => h.sh_name = v as u32,
        "sh_type" => h.sh_type = v as u32,
        "sh_flags" => h.sh_flags = v,
        "sh_addr" => h.sh_addr = v,
        "sh_offset" => h.sh_offset = v,
        "sh_size" => h.sh_size = v,
        "sh_link" => h.sh_link = v as u32,
        "sh_info" => h.sh_info = v as u32,
        "sh_addralign" => h.sh_addralign = v,
        "sh_entsize" => h.sh_entsize = v,
        _ => {}
    }
}
pub fn set_phdr_field(h: &mut Phdr, f: &str, v: u64) {
    match f {
        "p_type" => h.p_type = v as u32,
        "p_flags" => h.p_flags = v as u32,
        "p_offset" => h.p_offset = v,
        "p_vaddr" => h.p_vaddr = v,
        "p_paddr" => h.p_paddr = v,
        "p_filesz" => h.p_filesz = v,
        "p_memsz" => h.p_memsz = v,
        "p_align" => h.p_align = v,
        _ => {}
    }
}
pub fn set_ehdr_field(h: &mut Ehdr, f: &str, v: u64) {
    match f {
        "e_type" => h.e_type = v as u16,
        "e_machine" => h.e_machine = v as u16,
        "e_version" => h.e_version = v as u32,
        "e_entry" => h.e_entry = v,
        "e_phoff" => h.e_phoff = v,
        "e_shoff" => h.e_shoff = v,
        "e_flags" => h.e_flags = v as u32,
        "e_ehsize" => h.e_ehsize = v as u16,
        "e_phentsize" => h.e_phentsize = v as u16,
        "e_phnum" => h.e_phnum = v as u16,
        "e_shentsize" => h.e_shentsize = v as u16,
        "e_shnum" => h.e_shnum = v as u16,
        "e_shstrndx" => h.e_shstrndx = v as u16,
        "ei_class" => h.ident[4] = v as u8,
        "ei_data" => h.ident[5] = v as u8,
        "ei_version" => h.ident[6] = v as u8,
        "ei_mag0" => h.ident[0] = v as u8,
        "ei_mag1" => h.ident[1] = v as u8,
        "ei_mag2" => h.ident[2] = v as u8,
        "ei_mag3" => h.ident[3] = v as u8,
        _ => {}
    }
}

pub const SHDR_FIELDS: [&str; 10] = ["sh_name", "sh_type", "sh_flags", "sh_addr", "sh_offset", "sh_size", "sh_link", "sh_info", "sh_addralign", "sh_entsize"];
pub const PHDR_FIELDS: [&str; 8] = ["p_type", "p_flags", "p_offset", "p_vaddr", "p_paddr", "p_filesz", "p_memsz", "p_align"];
pub const EHDR_FIELDS: [&str; 13] = ["e_type", "e_machine", "e_version", "e_entry", "e_phoff", "e_shoff", "e_flags", "e_ehsize", "e_phentsize", "e_phnum", "e_shentsize", "e_shnum", "e_shstrndx"];

/// Lay the file out and write it.
pub fn build(spec: &FileSpec) -> Built {
    let enc = spec.enc;
    let nsec = spec.secs.len();
    let nseg = spec.segs.len();
    // section-name string table
    let mut strtab = StrTab::new();
    let mut name_offs = vec![0u32; nsec];
    for (i, s) in spec.secs.iter().enumerate() {
        name_offs[i] = strtab.add(&s.name);
    }
    let mut bodies: Vec<Vec<u8>> = spec.secs.iter().map(|s| s.body.clone()).collect();
    if let Some(i) = spec.shstrndx {
        if i < nsec && !spec.secs[i].fixed_range {
            bodies[i] = strtab.data.clone();
        }
    }
    let has_shdrs = (nsec > 0 || spec.force_shdrs) && !spec.omit_shdrs;
    let has_phdrs = nseg > 0 && !spec.omit_phdrs;

    // final piece order
    let mut order: Vec<Piece> = vec![];
    for p in &spec.order {
        let ok = match *p {
            Piece::Phdrs => has_phdrs,
            Piece::Shdrs => has_shdrs,
            Piece::Body(i) => i < nsec,
        };
        if ok && !order.contains(p) {
            order.push(*p);
        }
    }
    if has_phdrs && !order.contains(&Piece::Phdrs) {
        order.insert(0, Piece::Phdrs);
    }
    for i in 0..nsec {
        if !order.contains(&Piece::Body(i)) {
            order.push(Piece::Body(i));
        }
    }
    if has_shdrs && !order.contains(&Piece::Shdrs) {
        order.push(Piece::Shdrs);
    }

    // offsets
    let mut cur = ehdr_size(enc);
    let mut shoff = 0usize;
    let mut phoff = 0usize;
    let mut body_at = vec![(0usize, 0usize); nsec];
    let mut placed: Vec<(usize, usize)> = vec![]; // (offset, len) of every placed piece, for gap filling
    for (k, p) in order.iter().enumerate() {
        cur += spec.gaps.get(k).copied().unwrap_or(0);
        match *p {
            Piece::Phdrs => {
                phoff = cur;
                let l = nseg * phdr_size(enc);
                placed.push((cur, l));
                cur += l;
            }
            Piece::Shdrs => {
                shoff = cur;
                let l = nsec * shdr_size(enc);
                placed.push((cur, l));
                cur += l;
            }
            Piece::Body(i) => {
                let s = &spec.secs[i];
                if s.align > 1 && cur % s.align != 0 {
                    cur += s.align - cur % s.align;
                }
                if s.no_space {
                    body_at[i] = (cur, 0);
                } else {
                    body_at[i] = (cur, bodies[i].len());
                    placed.push((cur, bodies[i].len()));
                    cur += bodies[i].len();
                }
            }
        }
    }
    let total = cur + spec.tail_pad;

    // headers
    let mut shdrs: Vec<Shdr> = vec![];
    for (i, s) in spec.secs.iter().enumerate() {
        let mut h = s.hdr;
        h.sh_name = if s.hdr.sh_name != 0 { s.hdr.sh_name } else { name_offs[i] };
        if !s.fixed_range {
            h.sh_offset = body_at[i].0 as u64;
            if !s.no_space {
                h.sh_size = bodies[i].len() as u64;
            }
        }
        shdrs.push(h);
    }
    let mut phdrs: Vec<Phdr> = vec![];
    for g in &spec.segs {
        let mut h = g.hdr;
        if let Some(i) = g.covers {
            if i < nsec {
                h.p_offset = shdrs[i].sh_offset;
                h.p_filesz = if spec.secs[i].no_space { 0 } else { shdrs[i].sh_size };
            }
        }
        phdrs.push(h);
    }
    let mut eh = spec.ehdr.clone();
    eh.e_shoff = if has_shdrs { shoff as u64 } else { 0 };
    eh.e_phoff = if has_phdrs { phoff as u64 } else { 0 };
    eh.e_shentsize = if has_shdrs { shdr_size(enc) as u16 } else { spec.ehdr.e_shentsize };
    eh.e_phentsize = if has_phdrs { phdr_size(enc) as u16 } else { spec.ehdr.e_phentsize };
    let mut used_xnum = false;
    // section count / extended numbering
    if has_shdrs {
        if nsec as u32 >= SHN_LORESERVE && spec.extended && nsec > 0 {
            eh.e_shnum = 0;
            shdrs[0].sh_size = nsec as u64;
            used_xnum = true;
        } else {
            eh.e_shnum = nsec as u16;
        }
    } else {
        eh.e_shnum = 0;
    }
    if has_phdrs {
        if nseg >= PN_XNUM as usize && spec.extended && has_shdrs && nsec > 0 {
            eh.e_phnum = PN_XNUM;
            shdrs[0].sh_info = nseg as u32;
            used_xnum = true;
        } else {
            eh.e_phnum = nseg as u16;
        }
    } else {
        eh.e_phnum = 0;
    }
    match spec.shstrndx {
        Some(i) if has_shdrs => {
            if i as u32 >= SHN_LORESERVE && spec.extended && nsec > 0 {
                eh.e_shstrndx = SHN_XINDEX;
                shdrs[0].sh_link = i as u32;
                used_xnum = true;
            } else {
                eh.e_shstrndx = i as u16;
            }
        }
        _ => eh.e_shstrndx = 0,
    }
    // overrides
    for o in &spec.overrides {
        match o.target {
            Target::Ehdr => set_ehdr_field(&mut eh, o.field, o.value),
            Target::Shdr(i) => {
                if i < shdrs.len() {
                    set_shdr_field(&mut shdrs[i], o.field, o.value)
                }
            }
            Target::Phdr(i) => {
                if i < phdrs.len() {
                    set_phdr_field(&mut phdrs[i], o.field, o.value)
                }
            }
        }
    }
    // write
    let mut bytes = vec![0u8; total];
    if spec.gap_seed != 0 {
        fill(spec.gap_seed, &mut bytes);
    }
    let put = |bytes: &mut Vec<u8>, at: usize, b: &[u8]| {
        if at + b.len() <= bytes.len() {
            bytes[at..at + b.len()].copy_from_slice(b)
        }
    };
    for (i, _) in spec.secs.iter().enumerate() {
        if !spec.secs[i].no_space {
            put(&mut bytes, body_at[i].0, &bodies[i]);
        }
    }
    if has_shdrs {
        let mut w = W::new(enc);
        for h in &shdrs {
            h.write(&mut w);
        }
        put(&mut bytes, shoff, &w.buf);
    }
    if has_phdrs {
        let mut w = W::new(enc);
        for h in &phdrs {
            h.write(&mut w);
        }
        put(&mut bytes, phoff, &w.buf);
    }
    let ehb = enc_bytes(enc, |w| eh.write(w));
    put(&mut bytes, 0, &ehb);
    let m = enc.word_mask();
    eh.e_entry &= m;
    eh.e_phoff &= m;
    eh.e_shoff &= m;
    Built {
        bytes,
        enc_c64: enc.c64,
        enc_le: enc.le,
        ehdr: eh,
        shdrs: shdrs.iter().map(|h| h.as_written(enc)).collect(),
        phdrs: phdrs.iter().map(|h| h.as_written(enc)).collect(),
        shoff,
        phoff,
        has_shdrs,
        has_phdrs,
        body_at,
        shstrtab: strtab.data,
        used_xnum,
    }
}

/// Random layout: a permutation of the pieces with gaps.
pub fn random_layout(c: &mut Choice, spec: &mut FileSpec, max_gap: usize) {
    let nsec = spec.secs.len();
    let mut pieces: Vec<Piece> = vec![Piece::Phdrs, Piece::Shdrs];
    for i in 0..nsec {
        pieces.push(Piece::Body(i));
    }
    // Fisher-Yates driven by the choice sequence (zero choices = default order)
    if c.chance(200) {
        for i in (1..pieces.len()).rev() {
            let j = i - c.idx(i + 1).min(i);
            pieces.swap(i, j);
        }
    }
    spec.order = pieces;
    spec.gaps = (0..spec.order.len())
        .map(|_| match c.below(6) {
            0 | 1 | 2 => 0,
            3 => 1,
            4 => c.below(17) as usize,
            _ => c.below(max_gap as u64 + 1) as usize,
        })
        .collect();
    spec.gap_seed = c.u16() as u64 | 1;
    spec.tail_pad = match c.below(4) {
        0 => c.below(9) as usize,
        _ => 0,
    };
}
