//! File model, layout and override operators. The builder returns the bytes AND the ground truth
//! (where every structure was placed, what every header field holds after overrides).

use crate::choice::{fill, Choice};
use crate::elfw::*;

#[derive(Clone, Debug, Default)]
pub struct Sec {
    pub name: Vec<u8>,
    /// sh_name/sh_offset/sh_size are filled in by the builder (unless `fixed_*`), the rest is taken as is
    pub hdr: Shdr,
    pub body: Vec<u8>,
    /// body occupies no file space (SHT_NOBITS); sh_size is taken from hdr.sh_size
    pub no_space: bool,
    /// keep hdr.sh_offset / hdr.sh_size as given (fabricated ranges)
    pub fixed_range: bool,
    pub align: usize,
}

#[derive(Clone, Debug, Default)]
pub struct Seg {
    pub hdr: Phdr,
    /// if Some(i): p_offset/p_filesz designate section i's body (p_memsz is left as given)
    pub covers: Option<usize>,
}

#[derive(Clone, Copy, Debug, PartialEq, Eq)]
pub enum Piece {
    Phdrs,
    Shdrs,
    Body(usize),
}

#[derive(Clone, Copy, Debug, PartialEq, Eq)]
pub enum Target {
    Ehdr,
    Shdr(usize),
    Phdr(usize),
}

#[derive(Clone, Debug)]
pub struct Override {
    pub target: Target,
    pub field: &'static str,
    pub value: u64,
}

#[derive(Clone, Debug)]
pub struct FileSpec {
    pub enc: Enc,
    pub ehdr: Ehdr,
    pub secs: Vec<Sec>,
    pub segs: Vec<Seg>,
    /// index of the section-name string table (its body is generated from the section names)
    pub shstrndx: Option<usize>,
    /// order of the pieces after the ELF header; pieces not listed are appended in default order
    pub order: Vec<Piece>,
    /// gap (padding bytes) before piece k of the final order
    pub gaps: Vec<usize>,
    pub gap_seed: u64,
    pub tail_pad: usize,
    pub overrides: Vec<Override>,
    /// emit a section header table even when there are no sections
    pub force_shdrs: bool,
    /// leave out the table although sections/segments exist (stripped twin)
    pub omit_shdrs: bool,
    pub omit_phdrs: bool,
    /// use the extended numbering escape hatches when needed (shnum >= 0xff00, phnum >= 0xffff, shstrndx >= 0xff00)
    pub extended: bool,
}

impl FileSpec {
    pub fn new(enc: Enc) -> FileSpec {
        FileSpec {
            enc,
            ehdr: Ehdr { ident: ident(enc, 0, 0), e_type: 3, e_machine: 62, e_version: 1, e_ehsize: ehdr_size(enc) as u16, ..Default::default() },
            secs: vec![],
            segs: vec![],
            shstrndx: None,
            order: vec![],
            gaps: vec![],
            gap_seed: 0,
            tail_pad: 0,
            overrides: vec![],
            force_shdrs: false,
            omit_shdrs: false,
            omit_phdrs: false,
            extended: true,
        }
    }
    pub fn add_sec(&mut self, name: &[u8], sh_type: u32, body: Vec<u8>) -> usize {
        self.secs.push(Sec { name: name.to_vec(), hdr: Shdr { sh_type, sh_addralign: 1, ..Default::default() }, body, align: 1, ..Default::default() });
        self.secs.len() - 1
    }
}

#[derive(Clone, Debug, Default)]
pub struct Built {
    pub bytes: Vec<u8>,
    pub enc_c64: bool,
    pub enc_le: bool,
    /// header values as the file holds them (after overrides and ELF32 truncation)
    pub ehdr: Ehdr,
    pub shdrs: Vec<Shdr>,
    pub phdrs: Vec<Phdr>,
    /// true section/program header counts written to the tables
    pub shoff: usize,
    pub phoff: usize,
    pub has_shdrs: bool,
    pub has_phdrs: bool,
    /// where each section body was really placed (offset, len); no_space bodies have len 0
    pub body_at: Vec<(usize, usize)>,
    pub shstrtab: Vec<u8>,
    pub used_xnum: bool,
}

impl Built {
    pub fn enc(&self) -> Enc {
        Enc { c64: self.enc_c64, le: self.enc_le }
    }
}

pub fn set_shdr_field(h: &mut Shdr, f: &str, v: u64) {
    match f {
        "sh_name" => h.sh_name = v as u32,
        "sh_type" => h.sh_type = v as u32,
        "sh_flags" => h.sh_flags = v,
        "sh_addr" => h.sh_addr = v,
        "sh_offset" => h.sh_offset = v,
        "sh_size" => h.sh_size = v,
        "sh_link" => h.sh_link = v as u32,
        "sh_info" => h.sh_info = v as u32,
        "sh_addralign" => h.sh_addralign = v,
        "sh_entsize" => h.sh_entsize = v,
        _ => {}
    }
}
pub fn set_phdr_field(h: &mut Phdr, f: &str, v: u64) {
    match f {
        "p_type" => h.p_type = v as u32,
        "p_flags" => h.p_flags = v as u32,
        "p_offset" => h.p_offset = v,
        "p_vaddr" => h.p_vaddr = v,
        "p_paddr" => h.p_paddr = v,
        "p_filesz" => h.p_filesz = v,
        "p_memsz" => h.p_memsz = v,
        "p_align" => h.p_align = v,
        _ => {}
    }
}
pub fn set_ehdr_field(h: &mut Ehdr, f: &str, v: u64) {
    match f {
        "e_type" => h.e_type = v as u16,
        "e_machine" => h.e_machine = v as u16,
        "e_version" => h.e_version = v as u32,
        "e_entry" => h.e_entry = v,
        "e_phoff" => h.e_phoff = v,
        "e_shoff" => h.e_shoff = v,
        "e_flags" => h.e_flags = v as u32,
        "e_ehsize" => h.e_ehsize = v as u16,
        "e_phentsize" => h.e_phentsize = v as u16,
        "e_phnum" => h.e_phnum = v as u16,
        "e_shentsize" => h.e_shentsize = v as u16,
        "e_shnum" => h.e_shnum = v as u16,
        "e_shstrndx" => h.e_shstrndx = v as u16,
        "ei_class" => h.ident[4] = v as u8,
        "ei_data" => h.ident[5] = v as u8,
        "ei_version" => h.ident[6] = v as u8,
        "ei_mag0" => h.ident[0] = v as u8,
        "ei_mag1" => h.ident[1] = v as u8,
        "ei_mag2" => h.ident[2] = v as u8,
        "ei_mag3" => h.ident[3] = v as u8,
        _ => {}
    }
}

pub const SHDR_FIELDS: [&str; 10] = ["sh_name", "sh_type", "sh_flags", "sh_addr", "sh_offset", "sh_size", "sh_link", "sh_info", "sh_addralign", "sh_entsize"];
pub const PHDR_FIELDS: [&str; 8] = ["p_type", "p_flags", "p_offset", "p_vaddr", "p_paddr", "p_filesz", "p_memsz", "p_align"];
pub const EHDR_FIELDS: [&str; 13] = ["e_type", "e_machine", "e_version", "e_entry", "e_phoff", "e_shoff", "e_flags", "e_ehsize", "e_phentsize", "e_phnum", "e_shentsize", "e_shnum", "e_shstrndx"];

/// Lay the file out and write it.
pub fn build(spec: &FileSpec) -> Built {
    let enc = spec.enc;
    let nsec = spec.secs.len();
    let nseg = spec.segs.len();
    // section-name string table
    let mut strtab = StrTab::new();
    let mut name_offs = vec![0u32; nsec];
    for (i, s) in spec.secs.iter().enumerate() {
        name_offs[i] = strtab.add(&s.name);
    }
    let mut bodies: Vec<Vec<u8>> = spec.secs.iter().map(|s| s.body.clone()).collect();
    if let Some(i) = spec.shstrndx {
        if i < nsec && !spec.secs[i].fixed_range {
            bodies[i] = strtab.data.clone();
        }
    }
    let has_shdrs = (nsec > 0 || spec.force_shdrs) && !spec.omit_shdrs;
    let has_phdrs = nseg > 0 && !spec.omit_phdrs;

    // final piece order
    let mut order: Vec<Piece> = vec![];
    let mut seen_body = vec![false; nsec];
    let (mut seen_ph, mut seen_sh) = (false, false);
    for p in &spec.order {
        match *p {
            Piece::Phdrs => {
                if has_phdrs && !seen_ph {
                    seen_ph = true;
                    order.push(*p);
                }
            }
            Piece::Shdrs => {
                if has_shdrs && !seen_sh {
                    seen_sh = true;
                    order.push(*p);
                }
            }
            Piece::Body(i) => {
                if i < nsec && !seen_body[i] {
                    seen_body[i] = true;
                    order.push(*p);
                }
            }
        }
    }
    if has_phdrs && !seen_ph {
        order.insert(0, Piece::Phdrs);
    }
    for i in 0..nsec {
        if !seen_body[i] {
            order.push(Piece::Body(i));
        }
    }
    if has_shdrs && !seen_sh {
        order.push(Piece::Shdrs);
    }

    // offsets
    let mut cur = ehdr_size(enc);
    let mut shoff = 0usize;
    let mut phoff = 0usize;
    let mut body_at = vec![(0usize, 0usize); nsec];
    let mut placed: Vec<(usize, usize)> = vec![]; // (offset, len) of every placed piece, for gap filling
    for (k, p) in order.iter().enumerate() {
        cur += spec.gaps.get(k).copied().unwrap_or(0);
        match *p {
            Piece::Phdrs => {
                phoff = cur;
                let l = nseg * phdr_size(enc);
                placed.push((cur, l));
                cur += l;
            }
            Piece::Shdrs => {
                shoff = cur;
                let l = nsec * shdr_size(enc);
                placed.push((cur, l));
                cur += l;
            }
            Piece::Body(i) => {
                let s = &spec.secs[i];
                if s.align > 1 && cur % s.align != 0 {
                    cur += s.align - cur % s.align;
                }
                if s.no_space {
                    body_at[i] = (cur, 0);
                } else {
                    body_at[i] = (cur, bodies[i].len());
                    placed.push((cur, bodies[i].len()));
                    cur += bodies[i].len();
                }
            }
        }
    }
    let total = cur + spec.tail_pad;

    // headers
    let mut shdrs: Vec<Shdr> = vec![];
    for (i, s) in spec.secs.iter().enumerate() {
        let mut h = s.hdr;
        h.sh_name = if s.hdr.sh_name != 0 { s.hdr.sh_name } else { name_offs[i] };
        if !s.fixed_range {
            h.sh_offset = body_at[i].0 as u64;
            if !s.no_space {
                h.sh_size = bodies[i].len() as u64;
            }
        }
        shdrs.push(h);
    }
    let mut phdrs: Vec<Phdr> = vec![];
    for g in &spec.segs {
        let mut h = g.hdr;
        if let Some(i) = g.covers {
            if i < nsec {
                h.p_offset = shdrs[i].sh_offset;
                h.p_filesz = if spec.secs[i].no_space { 0 } else { shdrs[i].sh_size };
            }
        }
        phdrs.push(h);
    }
    let mut eh = spec.ehdr.clone();
    eh.e_shoff = if has_shdrs { shoff as u64 } else { 0 };
    eh.e_phoff = if has_phdrs { phoff as u64 } else { 0 };
    eh.e_shentsize = if has_shdrs { shdr_size(enc) as u16 } else { spec.ehdr.e_shentsize };
    eh.e_phentsize = if has_phdrs { phdr_size(enc) as u16 } else { spec.ehdr.e_phentsize };
    let mut used_xnum = false;
    // section count / extended numbering
    if has_shdrs {
        if nsec as u32 >= SHN_LORESERVE && spec.extended && nsec > 0 {
            eh.e_shnum = 0;
            shdrs[0].sh_size = nsec as u64;
            used_xnum = true;
        } else {
            eh.e_shnum = nsec as u16;
        }
    } else {
        eh.e_shnum = 0;
    }
    if has_phdrs {
        if nseg >= PN_XNUM as usize && spec.extended && has_shdrs && nsec > 0 {
            eh.e_phnum = PN_XNUM;
            shdrs[0].sh_info = nseg as u32;
            used_xnum = true;
        } else {
            eh.e_phnum = nseg as u16;
        }
    } else {
        eh.e_phnum = 0;
    }
    match spec.shstrndx {
        Some(i) if has_shdrs => {
            if i as u32 >= SHN_LORESERVE && spec.extended && nsec > 0 {
                eh.e_shstrndx = SHN_XINDEX;
                shdrs[0].sh_link = i as u32;
                used_xnum = true;
            } else {
                eh.e_shstrndx = i as u16;
            }
        }
        _ => eh.e_shstrndx = 0,
    }
    // overrides
    for o in &spec.overrides {
        match o.target {
            Target::Ehdr => set_ehdr_field(&mut eh, o.field, o.value),
            Target::Shdr(i) => {
                if i < shdrs.len() {
                    set_shdr_field(&mut shdrs[i], o.field, o.value)
                }
            }
            Target::Phdr(i) => {
                if i < phdrs.len() {
                    set_phdr_field(&mut phdrs[i], o.field, o.value)
                }
            }
        }
    }
    // write
    let mut bytes = vec![0u8; total];
    if spec.gap_seed != 0 {
        fill(spec.gap_seed, &mut bytes);
    }
    let put = |bytes: &mut Vec<u8>, at: usize, b: &[u8]| {
        if at + b.len() <= bytes.len() {
            bytes[at..at + b.len()].copy_from_slice(b)
        }
    };
    for (i, _) in spec.secs.iter().enumerate() {
        if !spec.secs[i].no_space {
            put(&mut bytes, body_at[i].0, &bodies[i]);
        }
    }
    if has_shdrs {
        let mut w = W::new(enc);
        for h in &shdrs {
            h.write(&mut w);
        }
        put(&mut bytes, shoff, &w.buf);
    }
    if has_phdrs {
        let mut w = W::new(enc);
        for h in &phdrs {
            h.write(&mut w);
        }
        put(&mut bytes, phoff, &w.buf);
    }
    let ehb = enc_bytes(enc, |w| eh.write(w));
    put(&mut bytes, 0, &ehb);
    let m = enc.word_mask();
    eh.e_entry &= m;
    eh.e_phoff &= m;
    eh.e_shoff &= m;
    Built {
        bytes,
        enc_c64: enc.c64,
        enc_le: enc.le,
        ehdr: eh,
        shdrs: shdrs.iter().map(|h| h.as_written(enc)).collect(),
        phdrs: phdrs.iter().map(|h| h.as_written(enc)).collect(),
        shoff,
        phoff,
        has_shdrs,
        has_phdrs,
        body_at,
        shstrtab: strtab.data,
        used_xnum,
    }
}

/// Random layout: a permutation of the pieces with gaps.
pub fn random_layout(c: &mut Choice, spec: &mut FileSpec, max_gap: usize) {
    let nsec = spec.secs.len();
    let mut pieces: Vec<Piece> = vec![Piece::Phdrs, Piece::Shdrs];
    for i in 0..nsec {
        pieces.push(Piece::Body(i));
    }
    // Fisher-Yates driven by the choice sequence (zero choices = default order)
    if c.chance(200) {
        for i in (1..pieces.len()).rev() {
            let j = i - c.idx(i + 1).min(i);
            pieces.swap(i, j);
        }
    }
    spec.order = pieces;
    spec.gaps = (0..spec.order.len())
        .map(|_| match c.below(6) {
            0 | 1 | 2 => 0,
            3 => 1,
            4 => c.below(17) as usize,
            _ => c.below(max_gap as u64 + 1) as usize,
        })
        .collect();
    spec.gap_seed = c.u16() as u64 | 1;
    spec.tail_pad = match c.below(4) {
        0 => c.below(9) as usize,
        _ => 0,
    };
}

// ================================================================================================
// Rich files: sections of every kind, wired by sh_link/sh_info, segments, random layout, overrides
// and byte-level corruption. Used by the byte-string properties (C01, C06, C07, C08, C16, C17, C18).
// ================================================================================================

use crate::refs;

#[derive(Clone, Copy, Debug, PartialEq, Eq)]
pub enum Kind {
    Null,
    Progbits,
    Nobits,
    Strtab,
    ShStrtab,
    Symtab,
    SymStr,
    Dynsym,
    DynStr,
    Hash,
    GnuHash,
    Versym,
    Verneed,
    Verdef,
    Note,
    Rel,
    Rela,
    Dynamic,
    Compressed,
}

#[derive(Clone, Debug, Default)]
pub struct RichOpts {
    /// probability (/256) that header overrides are applied
    pub override_chance: u32,
    /// probability (/256) that body bytes are corrupted
    pub corrupt_chance: u32,
    pub max_gap: usize,
    /// place the tables directly behind the ELF header (C18: most prefixes still open)
    pub tables_early: bool,
    /// allow SHF_COMPRESSED sections
    pub allow_compressed: bool,
    pub max_names: usize,
    /// probability (/256) that one section's declared sh_size is made smaller than its real body
    pub shrink_chance: u32,
    /// one file in 512 gets about 0xff00..0x10004 empty filler sections inserted in front, so that the section
    /// indexes its headers link to (sh_link, sh_info, e_shstrndx) lie in and around the reserved range 0xff00..0xffff
    pub many_sections: bool,
}

#[derive(Clone, Debug)]
pub struct Rich {
    pub spec: FileSpec,
    pub built: Built,
    pub kinds: Vec<Kind>,
    /// dynamic symbol names (index = symbol index)
    pub dyn_names: Vec<Vec<u8>>,
    pub sym_names: Vec<Vec<u8>>,
    pub overridden: bool,
    pub corrupted: bool,
    pub n_overrides: usize,
}

fn simple_names(c: &mut Choice, max: usize) -> Vec<Vec<u8>> {
    let n = c.below(max as u64 + 1) as usize;
    let mut v: Vec<Vec<u8>> = vec![vec![]];
    for i in 0..n {
        let nm: Vec<u8> = match c.below(6) {
            0 => vec![],
            1 if v.len() > 1 => v[1 + c.idx(v.len() - 1)].clone(),
            2 if v.len() > 1 => refs::djb2_collide(&v[v.len() - 1]).unwrap_or_else(|| vec![b'c', b'0' + (i % 10) as u8]),
            3 => vec![0xc3, 0x28, b'0' + (i % 10) as u8],
            _ => {
                let mut s = b"sym_".to_vec();
                s.push(b'a' + (i % 26) as u8);
                s.push(b'0' + c.below(10) as u8);
                if c.chance(40) {
                    s.extend_from_slice(b"_longer_name");
                }
                s
            }
        };
        v.push(nm);
    }
    v
}

pub fn boundary_for(c: &mut Choice, file_len: usize, own: u64) -> u64 {
    match c.below(12) {
        0 => file_len as u64,
        1 => file_len as u64 - (file_len > 0) as u64,
        2 => file_len as u64 + 1,
        3 => own,
        4 => own.wrapping_add(1),
        5 => own.wrapping_sub(1),
        6 => c.below(file_len as u64 + 2),
        7 => c.u64(),
        _ => c.val(64),
    }
}

/// A section was moved from index `from` to index `to` (to < from): renumber the section-index fields.
fn insert_fix_links(f: &mut FileSpec, to: usize, from: usize) {
    let map = |v: u32| -> u32 {
        let v = v as usize;
        (if v == from { to } else if v >= to && v < from { v + 1 } else { v }) as u32
    };
    for s in f.secs.iter_mut() {
        if matches!(s.hdr.sh_type, SHT_SYMTAB | SHT_DYNSYM | SHT_DYNAMIC | SHT_HASH | SHT_GNU_HASH | SHT_REL | SHT_RELA | SHT_GNU_VERSYM | SHT_GNU_VERNEED | SHT_GNU_VERDEF | 17 | 18) {
            s.hdr.sh_link = map(s.hdr.sh_link);
        }
        if matches!(s.hdr.sh_type, SHT_REL | SHT_RELA) {
            s.hdr.sh_info = map(s.hdr.sh_info);
        }
    }
}

/// Insert `k` empty sections at index `at` and renumber everything that refers to a section by index.
pub fn insert_fillers(f: &mut FileSpec, at: usize, k: usize) {
    let at = at.min(f.secs.len());
    let bump = |v: u32| -> u32 { if v as usize >= at { v + k as u32 } else { v } };
    for s in f.secs.iter_mut() {
        // sh_link is a section index for these types; sh_info too for relocation sections
        if matches!(s.hdr.sh_type, SHT_SYMTAB | SHT_DYNSYM | SHT_DYNAMIC | SHT_HASH | SHT_GNU_HASH | SHT_REL | SHT_RELA | SHT_GNU_VERSYM | SHT_GNU_VERNEED | SHT_GNU_VERDEF | 17 | 18) {
            s.hdr.sh_link = bump(s.hdr.sh_link);
        }
        if matches!(s.hdr.sh_type, SHT_REL | SHT_RELA) {
            s.hdr.sh_info = bump(s.hdr.sh_info);
        }
    }
    for g in f.segs.iter_mut() {
        if let Some(i) = g.covers {
            if i >= at {
                g.covers = Some(i + k);
            }
        }
    }
    if let Some(i) = f.shstrndx {
        if i >= at {
            f.shstrndx = Some(i + k);
        }
    }
    for p in f.order.iter_mut() {
        if let Piece::Body(i) = p {
            if *i >= at {
                *p = Piece::Body(*i + k);
            }
        }
    }
    for o in f.overrides.iter_mut() {
        if let Target::Shdr(i) = o.target {
            if i >= at {
                o.target = Target::Shdr(i + k);
            }
        }
    }
    let filler = Sec { name: vec![], hdr: Shdr { sh_type: SHT_PROGBITS, sh_addralign: 1, ..Default::default() }, body: vec![], align: 1, ..Default::default() };
    let tail = f.secs.split_off(at);
    f.secs.extend(std::iter::repeat(filler).take(k));
    f.secs.extend(tail);
}

/// Generate a rich file from a choice sequence.
pub const LOADER_TAGS: [i64; 11] = [6, 5, 10, 11, 4, 0x6ffffef5, 0x6ffffff0, 0x6ffffffe, 0x6fffffff, 0x6ffffffc, 0x6ffffffd];

/// Fill in the loader view of a built file: n_load PT_LOAD headers (from index first_load) that cut the file into
/// consecutive pieces mapped at file offset + bias and are listed in a shuffled order, and the leading LOADER_TAGS
/// entries of .dynamic with the addresses / sizes / counts of the sections they describe (a tag whose section does
/// not exist becomes DT_DEBUG). Bytes and the model (phdrs) are patched alike.
fn patch_loader_view(b: &mut Built, first_load: usize, n_load: usize, bias: u64, seed: u64) {
    let enc = b.enc();
    let flen = b.bytes.len() as u64;
    if b.has_phdrs && first_load + n_load <= b.phdrs.len() && n_load > 0 {
        let piece = (flen / n_load as u64).max(1);
        let mut order: Vec<usize> = (0..n_load).collect();
        let mut s = seed | 1;
        for i in (1..n_load).rev() {
            let j = (crate::choice::splitmix(&mut s) % (i as u64 + 1)) as usize;
            order.swap(i, j);
        }
        let pes = phdr_size(enc);
        for (slot, k) in order.iter().enumerate() {
            let lo = (*k as u64 * piece).min(flen);
            let hi = if *k + 1 == n_load { flen } else { ((*k as u64 + 1) * piece).min(flen) };
            let i = first_load + slot;
            let h = &mut b.phdrs[i];
            h.p_offset = lo;
            h.p_vaddr = lo + bias;
            h.p_paddr = lo + bias;
            h.p_filesz = hi - lo;
            h.p_memsz = hi - lo;
            let mut w = W::new(enc);
            h.write(&mut w);
            let at = b.phoff + i * pes;
            if at + pes <= b.bytes.len() {
                b.bytes[at..at + pes].copy_from_slice(&w.buf);
            }
        }
    }
    let find = |ty: u32| b.shdrs.iter().position(|h| h.sh_type == ty);
    let Some(i_dyn) = find(SHT_DYNAMIC) else { return };
    let (dyn_off, dyn_len) = b.body_at[i_dyn];
    let des = dyn_size(enc);
    if dyn_len < LOADER_TAGS.len() * des {
        return;
    }
    let addr = |i: usize| b.body_at[i].0 as u64 + bias;
    let i_sym = find(SHT_DYNSYM);
    let i_str = i_sym.map(|i| b.shdrs[i].sh_link as usize).filter(|l| *l < b.shdrs.len() && b.shdrs[*l].sh_type == SHT_STRTAB);
    let vals: [Option<u64>; 11] = [
        i_sym.map(addr),
        i_str.map(addr),
        i_str.map(|i| b.body_at[i].1 as u64),
        i_sym.map(|_| sym_size(enc) as u64),
        find(SHT_HASH).map(addr),
        find(SHT_GNU_HASH).map(addr),
        find(SHT_GNU_VERSYM).map(addr),
        find(SHT_GNU_VERNEED).map(addr),
        find(SHT_GNU_VERNEED).map(|i| b.shdrs[i].sh_info as u64),
        find(SHT_GNU_VERDEF).map(addr),
        find(SHT_GNU_VERDEF).map(|i| b.shdrs[i].sh_info as u64),
    ];
    for (k, v) in vals.iter().enumerate() {
        let d = match v {
            Some(v) => Dyn { d_tag: LOADER_TAGS[k], d_un: *v },
            None => Dyn { d_tag: 21, d_un: 0 },
        };
        let mut w = W::new(enc);
        d.write(&mut w);
        let at = dyn_off + k * des;
        b.bytes[at..at + des].copy_from_slice(&w.buf);
    }
}

pub fn rich_file(c: &mut Choice, o: &RichOpts) -> Rich {
    let enc = ALL_ENC[c.below(4) as usize];
    let mut f = FileSpec::new(enc);
    f.ehdr.e_type = *c.pick(&[0u16, 1, 2, 3, 4, 0xfeff]);
    f.ehdr.e_machine = *c.pick(&[0u16, 3, 40, 62, 183, 243, 0xffff]);
    f.ehdr.e_entry = c.val(64);
    f.ehdr.e_flags = c.val(32) as u32;
    // e_version is not validated by anyone (EI_VERSION is): one file in five carries something else than 1
    if c.u8() >= 205 {
        f.ehdr.e_version = c.val(32) as u32;
    }
    f.ehdr.ident[7] = c.below(20) as u8;
    let mut kinds: Vec<Kind> = vec![];
    let mask = c.u32();
    let has = |b: u32| mask & (1 << b) != 0;
    let minimal = c.chance(16);
    let mut dyn_names = vec![vec![]];
    let mut sym_names = vec![vec![]];
    // "loader view": the dynamic table starts with DT_SYMTAB/DT_STRTAB/DT_STRSZ/DT_SYMENT/DT_HASH/DT_GNU_HASH/DT_VERSYM/
    // DT_VERNEED/DT_VERNEEDNUM/DT_VERDEF/DT_VERDEFNUM whose values are the run-time addresses of the file's own
    // .dynsym/.dynstr/... under identity-style PT_LOAD segments (patched in once the layout is known): what a
    // loader, or a parser of a stripped object, goes by. (first PT_LOAD index, count, bias, shuffle seed)
    let mut lv: Option<(usize, usize, u64, u64)> = None;
    if !minimal {
        f.add_sec(b"", SHT_NULL, vec![]);
        kinds.push(Kind::Null);
        let word = if enc.c64 { 8 } else { 4 };
        // --- dynamic symbols + hashes
        let mut i_dynsym = None;
        if has(0) {
            dyn_names = simple_names(c, o.max_names.max(2));
            // gnu hash needs the hashed part sorted by bucket; keep one unhashed symbol in front
            let nbucket = 1 + c.below(5) as u32;
            let symoffset = 1 + (dyn_names.len() > 2 && c.bool()) as u32;
            let mut hashed: Vec<Vec<u8>> = dyn_names[symoffset as usize..].to_vec();
            refs::gnu_sort(&mut hashed, nbucket);
            dyn_names.truncate(symoffset as usize);
            dyn_names.extend(hashed.iter().cloned());
            let tab = refs::build_symtab(enc, &dyn_names, c.u16() as u64, c.bool());
            let i_str = f.add_sec(b".dynstr", SHT_STRTAB, tab.strtab.clone());
            kinds.push(Kind::DynStr);
            let i = f.add_sec(b".dynsym", SHT_DYNSYM, tab.symtab.clone());
            kinds.push(Kind::Dynsym);
            f.secs[i].hdr.sh_link = i_str as u32;
            f.secs[i].hdr.sh_entsize = sym_size(enc) as u64;
            f.secs[i].hdr.sh_info = 1;
            f.secs[i].align = word;
            i_dynsym = Some((i, i_str));
            if has(1) {
                let mode = c.bool();
                let h = refs::build_sysv_hash(enc, &dyn_names, 1 + c.below(6) as u32, &|_| mode);
                let j = f.add_sec(b".hash", SHT_HASH, h);
                kinds.push(Kind::Hash);
                f.secs[j].hdr.sh_link = i as u32;
                f.secs[j].hdr.sh_entsize = 4;
                f.secs[j].align = 4;
            }
            if has(2) {
                let p = refs::GnuParams { nbucket, nbloom: 1 << c.below(3), shift: c.below(32) as u32, symoffset };
                let h = refs::build_gnu_hash(enc, &hashed, &p);
                let j = f.add_sec(b".gnu.hash", SHT_GNU_HASH, h);
                kinds.push(Kind::GnuHash);
                f.secs[j].hdr.sh_link = i as u32;
                f.secs[j].align = word;
            }
        }
        // --- versions
        if has(3) {
            // (one file in twenty: as many version records as a large shared library has - up to 30 needed files with up
            // to 8 versions each and 30 definitions)
            let mut model = if c.u8() >= 243 { refs::gen_version_model(c, 30, 8, 30, dyn_names.len().max(1)) } else { refs::gen_version_model(c, 3, 3, 3, dyn_names.len().max(1)) };
            model.versym.resize(dyn_names.len(), 1);
            let contiguous = c.bool();
            let s = refs::build_versions(enc, &model, c, contiguous, true);
            let strs = match i_dynsym {
                Some((_, i_str)) if c.bool() => {
                    // append the version strings to .dynstr? keep it simple: own string table
                    let _ = i_str;
                    let k = f.add_sec(b".verstr", SHT_STRTAB, s.need_strs.clone());
                    kinds.push(Kind::Strtab);
                    k
                }
                _ => {
                    let k = f.add_sec(b".verstr", SHT_STRTAB, s.need_strs.clone());
                    kinds.push(Kind::Strtab);
                    k
                }
            };
            let i = f.add_sec(b".gnu.version", SHT_GNU_VERSYM, s.versym.clone());
            kinds.push(Kind::Versym);
            f.secs[i].hdr.sh_entsize = 2;
            f.secs[i].hdr.sh_link = i_dynsym.map(|x| x.0 as u32).unwrap_or(0);
            f.secs[i].align = 2;
            if !model.needs.is_empty() {
                let i = f.add_sec(b".gnu.version_r", SHT_GNU_VERNEED, s.verneed.clone());
                kinds.push(Kind::Verneed);
                f.secs[i].hdr.sh_link = strs as u32;
                f.secs[i].hdr.sh_info = model.needs.len() as u32;
                f.secs[i].align = 4;
            }
            if !model.defs.is_empty() {
                let i = f.add_sec(b".gnu.version_d", SHT_GNU_VERDEF, s.verdef.clone());
                kinds.push(Kind::Verdef);
                f.secs[i].hdr.sh_link = strs as u32;
                f.secs[i].hdr.sh_info = model.defs.len() as u32;
                f.secs[i].align = 4;
            }
            // a stray extra version-index section AFTER the other version sections (different content)
            if c.chance(40) {
                let mut alt = s.versym.clone();
                for b in alt.iter_mut() {
                    *b ^= 0x03;
                }
                alt.extend_from_slice(&[2, 0, 3, 0]);
                let i = f.add_sec(b".gnu.version.dup", SHT_GNU_VERSYM, alt);
                kinds.push(Kind::Versym);
                f.secs[i].hdr.sh_entsize = 2;
                f.secs[i].align = 2;
            }
        }
        // --- static symbols
        if has(4) {
            sym_names = simple_names(c, o.max_names.max(2));
            let tab = refs::build_symtab(enc, &sym_names, c.u16() as u64, c.bool());
            let i_str = f.add_sec(b".strtab", SHT_STRTAB, tab.strtab.clone());
            kinds.push(Kind::SymStr);
            let i = f.add_sec(b".symtab", SHT_SYMTAB, tab.symtab.clone());
            kinds.push(Kind::Symtab);
            f.secs[i].hdr.sh_link = i_str as u32;
            f.secs[i].hdr.sh_entsize = sym_size(enc) as u64;
            f.secs[i].align = word;
        }
        // --- notes
        let mut note_secs = vec![];
        for k in 0..(has(5) as usize + has(6) as usize) {
            let align = *c.pick(&[4usize, 4, 4, 8, 1, 2, 16]);
            let mut w = W::new(enc);
            let n = 1 + c.below(3);
            for _ in 0..n {
                let rec = match c.below(3) {
                    0 => NoteRec { n_type: 1, name: b"GNU\0".to_vec(), desc: vec![0, 0, 0, 0, 2, 0, 0, 0, 6, 0, 0, 0, 32, 0, 0, 0] },
                    1 => {
                        // (build ids as tool chains make them: 16, 20, 32 or 64 bytes, or anything up to 23)
                        let l = match c.below(6) {
                            0 => 32,
                            1 => 20,
                            2 => 16,
                            3 => 64,
                            _ => c.below(24) as usize,
                        };
                        NoteRec { n_type: 3, name: b"GNU\0".to_vec(), desc: c.bytes(l) }
                    }
                    _ => {
                        let (nl, dl) = (c.below(12) as usize, c.below(20) as usize);
                        NoteRec { n_type: c.val(32) as u32, name: c.bytes(nl), desc: c.bytes(dl) }
                    }
                };
                rec.write(&mut w, 0, align);
            }
            let i = f.add_sec(if k == 0 { b".note.ABI-tag" } else { b".note.gnu.build-id" }, SHT_NOTE, w.buf);
            kinds.push(Kind::Note);
            f.secs[i].hdr.sh_addralign = align as u64;
            f.secs[i].align = align;
            note_secs.push(i);
        }
        // --- relocations
        if has(7) {
            let n = c.below(6);
            let mut w = W::new(enc);
            for _ in 0..n {
                Rel { r_offset: c.val(64), r_info: c.val(64) }.write(&mut w);
            }
            // (a minority: a trailing partial entry; a recorded entry size of 0, twice the size or anything - the
            // relocation accessors go by the ABI size)
            if c.u8() >= 220 {
                let k = c.below(rel_size(enc) as u64) as usize;
                w.buf.extend(std::iter::repeat(0xEE).take(k));
            }
            let i = f.add_sec(b".rel.dyn", SHT_REL, w.buf);
            kinds.push(Kind::Rel);
            f.secs[i].hdr.sh_entsize = match c.u8() {
                0..=199 => rel_size(enc) as u64,
                200..=229 => 0,
                230..=244 => 2 * rel_size(enc) as u64,
                _ => c.val(16),
            };
            f.secs[i].align = word;
        }
        if has(8) {
            let n = c.below(6);
            let mut w = W::new(enc);
            for _ in 0..n {
                Rela { r_offset: c.val(64), r_info: c.val(64), r_addend: c.val(64) as i64 }.write(&mut w);
            }
            if c.u8() >= 220 {
                let k = c.below(rela_size(enc) as u64) as usize;
                w.buf.extend(std::iter::repeat(0xEE).take(k));
            }
            let i = f.add_sec(b".rela.plt", SHT_RELA, w.buf);
            kinds.push(Kind::Rela);
            f.secs[i].hdr.sh_entsize = match c.u8() {
                0..=199 => rela_size(enc) as u64,
                200..=229 => 0,
                230..=244 => 2 * rela_size(enc) as u64,
                _ => c.val(16),
            };
            f.secs[i].align = word;
        }
        // --- dynamic
        let mut i_dynamic = None;
        if has(9) {
            let n = 1 + c.below(6);
            let mut w = W::new(enc);
            let loader_view = c.u8() >= 176;
            if loader_view {
                for t in LOADER_TAGS {
                    Dyn { d_tag: t, d_un: 0 }.write(&mut w);
                }
                lv = Some((0, 0, 0, 0));
            }
            for _ in 0..n {
                Dyn { d_tag: *c.pick(&[1i64, 5, 6, 10, 0x6ffffef5, 0x6ffffffe, -1, 0x7fffffff]), d_un: c.val(64) }.write(&mut w);
            }
            Dyn { d_tag: 0, d_un: 0 }.write(&mut w);
            let i = f.add_sec(b".dynamic", SHT_DYNAMIC, w.buf);
            kinds.push(Kind::Dynamic);
            f.secs[i].hdr.sh_entsize = dyn_size(enc) as u64;
            f.secs[i].hdr.sh_link = i_dynsym.map(|x| x.1 as u32).unwrap_or(0);
            f.secs[i].align = word;
            i_dynamic = Some(i);
        }
        // --- plain data
        for k in 0..(has(10) as usize + has(11) as usize) {
            let l = c.below(48) as usize;
            let b = c.bytes(l);
            f.add_sec(if k == 0 { b".text" } else { b".data" }, SHT_PROGBITS, b);
            kinds.push(Kind::Progbits);
        }
        if has(12) {
            let i = f.add_sec(b".bss", SHT_NOBITS, vec![]);
            kinds.push(Kind::Nobits);
            f.secs[i].no_space = true;
            f.secs[i].hdr.sh_size = c.val(32);
        }
        if has(13) && o.allow_compressed {
            let l = c.below(40) as usize;
            let mut body = enc_bytes(enc, |w| Chdr { ch_type: 1 + c.below(2) as u32, ch_reserved: 0, ch_size: c.val(32), ch_addralign: 1 }.write(w));
            let cut = c.chance(40);
            let payload = c.bytes(l);
            body.extend_from_slice(&payload);
            if cut {
                let nl = c.idx(body.len());
                body.truncate(nl);
            }
            let i = f.add_sec(b".zdebug", SHT_PROGBITS, body);
            kinds.push(Kind::Compressed);
            f.secs[i].hdr.sh_flags = SHF_COMPRESSED;
        }
        if has(14) {
            let l = c.below(30) as usize;
            let mut b = c.bytes(l);
            if c.bool() {
                b.push(0);
            }
            f.add_sec(b".comment", SHT_STRTAB, b);
            kinds.push(Kind::Strtab);
        }
        // sections of types the crate has no accessor for (it must not care about them), some of them linked to a symbol
        // table as the gABI prescribes, with right or wrong geometry; and the names debug tooling treats specially
        let fk = c.u8();
        if fk >= 200 {
            let symsec = f.secs.iter().position(|s| s.hdr.sh_type == SHT_SYMTAB || s.hdr.sh_type == SHT_DYNSYM);
            match fk % 7 {
                0 | 1 => {
                    // SHT_SYMTAB_SHNDX: one word per symbol of the linked table (or not)
                    let nsym = symsec.map(|i| f.secs[i].body.len() / sym_size(enc)).unwrap_or(3);
                    let n = if c.bool() { nsym } else { c.below(9) as usize };
                    let i = f.add_sec(b".symtab_shndx", 18, vec![0u8; 4 * n + if c.chance(40) { 1 + c.below(3) as usize } else { 0 }]);
                    f.secs[i].hdr.sh_link = symsec.unwrap_or(0) as u32;
                    f.secs[i].hdr.sh_entsize = if c.chance(200) { 4 } else { c.val(16) };
                    // (in a quarter of these files the symbol table it belongs to declares an entry size of 0 or another
                    // wrong value: every accessor must refuse that table, none may divide by it)
                    if let (Some(j), true) = (symsec, c.chance(64)) {
                        f.secs[j].hdr.sh_entsize = *c.pick(&[0u64, 0, 1, 7, 0xffff]);
                    }
                    // (in a quarter of these files the section comes BEFORE its symbol table)
                    if c.chance(64) && i > 1 {
                        let s2 = f.secs.remove(i);
                        f.secs.insert(1, s2);
                        insert_fix_links(&mut f, 1, i);
                        kinds.insert(1, Kind::Progbits);
                        for v in note_secs.iter_mut() {
                            if *v >= 1 && *v < i {
                                *v += 1;
                            }
                        }
                        if let Some(v) = i_dynamic.as_mut() {
                            if *v >= 1 && *v < i {
                                *v += 1;
                            }
                        }
                    } else {
                        kinds.push(Kind::Progbits);
                    }
                }
                2 => {
                    let i = f.add_sec(b".group", 17, { let mut w = W::new(enc); w.u32(1); w.u32(1); w.u32(2); w.buf });
                    f.secs[i].hdr.sh_link = symsec.unwrap_or(0) as u32;
                    f.secs[i].hdr.sh_info = c.below(4) as u32;
                    f.secs[i].hdr.sh_entsize = 4;
                    kinds.push(Kind::Progbits);
                }
                3 => {
                    let i = f.add_sec(b".relr.dyn", 19, vec![0x11u8; word * c.below(5) as usize]);
                    f.secs[i].hdr.sh_entsize = word as u64;
                    kinds.push(Kind::Progbits);
                }
                4 => {
                    f.add_sec(b".debug_info", SHT_PROGBITS, c.bytes(7));
                    kinds.push(Kind::Progbits);
                }
                5 => {
                    f.add_sec(b".zdebug_info", SHT_PROGBITS, b"ZLIB\0\0\0\0\0\0\0\x10xyz".to_vec());
                    kinds.push(Kind::Progbits);
                }
                _ => {
                    let i = f.add_sec(b".init_array", 14, vec![0u8; word * c.below(4) as usize]);
                    f.secs[i].hdr.sh_entsize = word as u64;
                    kinds.push(Kind::Progbits);
                }
            }
        }
        // section-name string table
        if !c.chance(24) {
            let s = f.add_sec(b".shstrtab", SHT_STRTAB, vec![]);
            kinds.push(Kind::ShStrtab);
            f.shstrndx = Some(s);
        }
        // --- segments
        let nseg = c.below(5);
        for _ in 0..nseg {
            let t = c.below(6);
            let nsec = f.secs.len();
            let seg = match t {
                0 if !note_secs.is_empty() => Seg { hdr: Phdr { p_type: PT_NOTE, p_flags: 4, p_align: f.secs[note_secs[0]].hdr.sh_addralign, ..Default::default() }, covers: Some(note_secs[c.idx(note_secs.len())]) },
                1 if i_dynamic.is_some() => Seg { hdr: Phdr { p_type: PT_DYNAMIC, p_flags: 6, p_align: 8, ..Default::default() }, covers: i_dynamic },
                2 => Seg { hdr: Phdr { p_type: PT_LOAD, p_flags: c.below(8) as u32, p_align: 0x1000, p_memsz: c.val(32), p_vaddr: c.val(64), ..Default::default() }, covers: Some(c.idx(nsec)) },
                3 => Seg { hdr: Phdr { p_type: c.val(32) as u32, p_flags: c.val(32) as u32, p_offset: c.val(32), p_filesz: c.val(16), p_memsz: c.val(32), p_align: c.val(64), ..Default::default() }, covers: None },
                _ => Seg { hdr: Phdr { p_type: PT_LOAD, p_flags: 5, p_align: 0x1000, ..Default::default() }, covers: Some(c.idx(nsec)) },
            };
            let mut seg = seg;
            if seg.hdr.p_memsz == 0 {
                seg.hdr.p_memsz = c.val(24);
            }
            f.segs.push(seg);
        }
        if lv.is_some() {
            if !f.segs.iter().any(|s| s.hdr.p_type == PT_DYNAMIC) || c.bool() {
                f.segs.push(Seg { hdr: Phdr { p_type: PT_DYNAMIC, p_flags: 6, p_align: 8, p_memsz: 1, ..Default::default() }, covers: i_dynamic });
            }
            // usually 1..3 PT_LOAD pieces, rarely as many as a heavily segmented object has; listed in any order
            let n_load = if c.u8() == 0xD3 { 74 + c.below(70) as usize } else { 1 + c.below(3) as usize };
            let first_load = f.segs.len();
            for _ in 0..n_load {
                f.segs.push(Seg { hdr: Phdr { p_type: PT_LOAD, p_flags: 5, p_align: 0x1000, p_memsz: 1, ..Default::default() }, covers: None });
            }
            lv = Some((first_load, n_load, *c.pick(&[0u64, 0, 0x1000, 0x40_0000, 0xffff_0000]), c.u64()));
            // such objects are often stripped of their section headers
            if c.u8() >= 128 {
                f.omit_shdrs = true;
            }
        }
        if c.chance(20) {
            f.omit_shdrs = true;
        }
    }
    if o.many_sections && !f.secs.is_empty() && c.u8() == 0xC7 && c.u8() >= 128 {
        let k = 0xff00 - 3 + c.below(0x108) as usize;
        insert_fillers(&mut f, 1, k);
        for _ in 0..k {
            kinds.insert(1, Kind::Progbits);
        }
    }
    // layout
    random_layout(c, &mut f, o.max_gap);
    if o.tables_early {
        f.order.retain(|p| !matches!(p, Piece::Phdrs | Piece::Shdrs));
        f.order.insert(0, Piece::Shdrs);
        f.order.insert(0, Piece::Phdrs);
        if f.gaps.len() >= 2 {
            f.gaps[0] = 0;
            f.gaps[1] = 0;
        }
    }
    let first = build(&f);
    let file_len = first.bytes.len();
    // header overrides
    let mut n_over = 0;
    if c.chance(o.override_chance) {
        n_over = 1 + c.below(3) as usize;
        for _ in 0..n_over {
            let nsec = first.shdrs.len();
            let nseg = first.phdrs.len();
            match c.below(3) {
                0 => {
                    let fld = *c.pick(&EHDR_FIELDS[3..]);
                    let own = match fld {
                        "e_shoff" => first.ehdr.e_shoff,
                        "e_phoff" => first.ehdr.e_phoff,
                        "e_shnum" => first.ehdr.e_shnum as u64,
                        "e_phnum" => first.ehdr.e_phnum as u64,
                        "e_shentsize" => first.ehdr.e_shentsize as u64,
                        "e_phentsize" => first.ehdr.e_phentsize as u64,
                        "e_shstrndx" => first.ehdr.e_shstrndx as u64,
                        _ => 0,
                    };
                    let v = boundary_for(c, file_len, own);
                    f.overrides.push(Override { target: Target::Ehdr, field: fld, value: v });
                }
                1 if nsec > 0 => {
                    let i = c.idx(nsec);
                    let fld = *c.pick(&SHDR_FIELDS);
                    let h = &first.shdrs[i];
                    let own = match fld {
                        "sh_offset" => h.sh_offset,
                        "sh_size" => h.sh_size,
                        "sh_link" => h.sh_link as u64,
                        "sh_info" => h.sh_info as u64,
                        "sh_entsize" => h.sh_entsize,
                        "sh_name" => h.sh_name as u64,
                        "sh_type" => h.sh_type as u64,
                        _ => 0,
                    };
                    if c.chance(50) && h.sh_size > 0 {
                        // declared size smaller than the real body: data beyond the declared range must not be used
                        let v = c.below(h.sh_size);
                        f.overrides.push(Override { target: Target::Shdr(i), field: "sh_size", value: v });
                        continue;
                    }
                    let v = if fld == "sh_type" && c.bool() { *c.pick(&[0u64, 1, 2, 3, 4, 5, 6, 7, 8, 9, 11, 0x6ffffff6, 0x6ffffffd, 0x6ffffffe, 0x6fffffff]) } else if fld == "sh_link" && c.bool() { c.below(nsec as u64 + 1) } else { boundary_for(c, file_len, own) };
                    f.overrides.push(Override { target: Target::Shdr(i), field: fld, value: v });
                }
                _ if nseg > 0 => {
                    let i = c.idx(nseg);
                    let fld = *c.pick(&PHDR_FIELDS);
                    let h = &first.phdrs[i];
                    let own = match fld {
                        "p_offset" => h.p_offset,
                        "p_filesz" => h.p_filesz,
                        "p_memsz" => h.p_memsz,
                        "p_align" => h.p_align,
                        _ => 0,
                    };
                    let v = if fld == "p_type" && c.bool() { *c.pick(&[0u64, 1, 2, 3, 4, 6, 7]) } else { boundary_for(c, file_len, own) };
                    f.overrides.push(Override { target: Target::Phdr(i), field: fld, value: v });
                }
                _ => {}
            }
        }
    }
    if o.override_chance > 0 {
        // the extended-numbering escape values on files that do not need them (keyed on non-zero bytes)
        let k = c.u8();
        if k == 0x51 {
            f.overrides.push(Override { target: Target::Ehdr, field: "e_phnum", value: 0xffff });
            n_over += 1;
        } else if k == 0x52 {
            f.overrides.push(Override { target: Target::Ehdr, field: "e_shnum", value: 0 });
            n_over += 1;
        } else if k == 0x53 {
            f.overrides.push(Override { target: Target::Ehdr, field: "e_shstrndx", value: 0xffff });
            n_over += 1;
        } else if k == 0x55 && !first.shdrs.is_empty() {
            // extended section numbering although the count would fit: e_shnum = 0, shdr[0].sh_size = count
            f.overrides.push(Override { target: Target::Ehdr, field: "e_shnum", value: 0 });
            f.overrides.push(Override { target: Target::Shdr(0), field: "sh_size", value: first.shdrs.len() as u64 });
            n_over += 2;
        } else if k == 0x56 && !first.shdrs.is_empty() && !first.phdrs.is_empty() {
            f.overrides.push(Override { target: Target::Ehdr, field: "e_phnum", value: 0xffff });
            f.overrides.push(Override { target: Target::Shdr(0), field: "sh_info", value: first.phdrs.len() as u64 });
            n_over += 2;
        } else if (k == 0x57 || k == 0x58 || k == 0x59) && first.ehdr.e_shstrndx != 0 && (first.ehdr.e_shstrndx as usize) < first.shdrs.len() {
            // SHN_XINDEX whose shdr[0].sh_link is 0: the designated name table is section 0 itself, which here is made a
            // perfectly usable string table (it designates the bytes of the real .shstrtab)
            let t = &first.shdrs[first.ehdr.e_shstrndx as usize];
            f.overrides.push(Override { target: Target::Ehdr, field: "e_shstrndx", value: 0xffff });
            f.overrides.push(Override { target: Target::Shdr(0), field: "sh_link", value: 0 });
            f.overrides.push(Override { target: Target::Shdr(0), field: "sh_type", value: SHT_STRTAB as u64 });
            f.overrides.push(Override { target: Target::Shdr(0), field: "sh_offset", value: t.sh_offset });
            f.overrides.push(Override { target: Target::Shdr(0), field: "sh_size", value: t.sh_size });
            n_over += 5;
        } else if (0x5A..=0x65).contains(&k) && first.ehdr.e_shoff != 0 && first.ehdr.e_phoff != 0 {
            // the two header tables designated at ONE offset (a file whose writer confused them): either offset wins;
            // a third of these keep their counts, a third get counts under which both tables cover exactly the same
            // bytes, a third are both empty
            let v = (k - 0x5A) % 3;
            let at = if k < 0x60 { first.ehdr.e_shoff } else { first.ehdr.e_phoff };
            f.overrides.push(Override { target: Target::Ehdr, field: "e_phoff", value: at });
            f.overrides.push(Override { target: Target::Ehdr, field: "e_shoff", value: at });
            n_over += 2;
            let (se, pe) = (first.ehdr.e_shentsize as u64, first.ehdr.e_phentsize as u64);
            if v == 1 && se != 0 && pe != 0 {
                let unit = if se == 64 { 7 } else { 4 };
                let sn = ((first.shdrs.len() as u64) / unit).max(1) * unit;
                f.overrides.push(Override { target: Target::Ehdr, field: "e_shnum", value: sn });
                f.overrides.push(Override { target: Target::Ehdr, field: "e_phnum", value: sn * se / pe });
                n_over += 2;
            } else if v == 2 {
                f.overrides.push(Override { target: Target::Ehdr, field: "e_shnum", value: 0 });
                f.overrides.push(Override { target: Target::Ehdr, field: "e_phnum", value: 0 });
                n_over += 2;
            }
        } else if k == 0x54 {
            f.overrides.push(Override { target: Target::Ehdr, field: "e_phnum", value: 0xffff });
            f.overrides.push(Override { target: Target::Ehdr, field: "e_shoff", value: 0 });
            n_over += 2;
        }
    }
    if c.chance(o.shrink_chance) && !first.shdrs.is_empty() {
        // prefer the record-structured sections (version, symbol, hash, note, dynamic)
        let cands: Vec<usize> = (0..kinds.len().min(first.shdrs.len())).filter(|i| matches!(kinds[*i], Kind::Verdef | Kind::Verneed | Kind::Versym | Kind::Dynsym | Kind::Symtab | Kind::Hash | Kind::GnuHash | Kind::Note | Kind::Dynamic | Kind::Rel | Kind::Rela)).collect();
        if !cands.is_empty() {
            let i = cands[c.idx(cands.len())];
            let own = first.shdrs[i].sh_size;
            if own > 0 {
                let v = match c.below(3) {
                    0 => own / 2,
                    1 => own.saturating_sub(*c.pick(&[8u64, 16, 20, 24, 1, 2])),
                    _ => c.below(own),
                };
                f.overrides.push(Override { target: Target::Shdr(i), field: "sh_size", value: v });
                n_over += 1;
            }
        }
    }
    let mut built = if f.overrides.is_empty() { first } else { build(&f) };
    if let Some((first_load, n_load, bias, seed)) = lv {
        patch_loader_view(&mut built, first_load, n_load, bias, seed);
    }
    // byte-level corruption inside section bodies / anywhere
    let mut corrupted = false;
    if c.chance(o.corrupt_chance) && !built.bytes.is_empty() {
        corrupted = true;
        let k = 1 + c.below(4);
        for _ in 0..k {
            let (lo, len) = if !built.body_at.is_empty() && c.chance(200) {
                let i = c.idx(built.body_at.len());
                built.body_at[i]
            } else {
                (0, built.bytes.len())
            };
            if len == 0 {
                continue;
            }
            match c.below(3) {
                0 => {
                    let at = lo + c.idx(len);
                    built.bytes[at] = c.u8();
                }
                1 => {
                    // aligned 32-bit word <- boundary value
                    let at = lo + (c.idx(len) & !3);
                    let v = (boundary_for(c, len, at as u64) as u32).to_le_bytes();
                    for j in 0..4 {
                        if at + j < built.bytes.len() {
                            built.bytes[at + j] = if enc.le { v[j] } else { v[3 - j] };
                        }
                    }
                }
                _ => {
                    let at = lo + c.idx(len);
                    built.bytes[at] ^= 1 << c.below(8);
                }
            }
        }
    }
    Rich { overridden: !f.overrides.is_empty(), n_overrides: n_over, spec: f, built, kinds, dyn_names, sym_names, corrupted }
}
