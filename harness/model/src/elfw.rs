//! ELF writer: every on-disk structure x {ELF32, ELF64} x {LSB, MSB}. Transcribed from the gABI and
//! the GNU/LSB documents (field order, widths, packed-field macros), NOT from the crate under test.
//! Its layout is cross-checked against glibc's <elf.h> (reference/struct_layout.tsv) by `selfcheck`.

#[derive(Clone, Copy, PartialEq, Eq, Debug, Hash)]
pub struct Enc {
    pub c64: bool,
    pub le: bool,
}

pub const ALL_ENC: [Enc; 4] = [
    Enc { c64: false, le: true },
    Enc { c64: false, le: false },
    Enc { c64: true, le: true },
    Enc { c64: true, le: false },
];

impl Enc {
    pub fn name(self) -> &'static str {
        match (self.c64, self.le) {
            (false, true) => "ELF32LSB",
            (false, false) => "ELF32MSB",
            (true, true) => "ELF64LSB",
            (true, false) => "ELF64MSB",
        }
    }
    pub fn word_bits(self) -> u32 {
        if self.c64 {
            64
        } else {
            32
        }
    }
    pub fn word_mask(self) -> u64 {
        if self.c64 {
            u64::MAX
        } else {
            0xffff_ffff
        }
    }
}

pub struct W {
    pub buf: Vec<u8>,
    pub enc: Enc,
}

impl W {
    pub fn new(enc: Enc) -> W {
        W { buf: Vec::new(), enc }
    }
    pub fn u8(&mut self, v: u8) {
        self.buf.push(v);
    }
    pub fn u16(&mut self, v: u16) {
        if self.enc.le {
            self.buf.extend_from_slice(&v.to_le_bytes())
        } else {
            self.buf.extend_from_slice(&v.to_be_bytes())
        }
    }
    pub fn u32(&mut self, v: u32) {
        if self.enc.le {
            self.buf.extend_from_slice(&v.to_le_bytes())
        } else {
            self.buf.extend_from_slice(&v.to_be_bytes())
        }
    }
    pub fn u64(&mut self, v: u64) {
        if self.enc.le {
            self.buf.extend_from_slice(&v.to_le_bytes())
        } else {
            self.buf.extend_from_slice(&v.to_be_bytes())
        }
    }
    /// Elf32_Word-or-Elf64_Xword / Addr / Off: 4 bytes in ELF32 (truncating), 8 in ELF64
    pub fn word(&mut self, v: u64) {
        if self.enc.c64 {
            self.u64(v)
        } else {
            self.u32(v as u32)
        }
    }
    pub fn bytes(&mut self, b: &[u8]) {
        self.buf.extend_from_slice(b);
    }
    pub fn pad_to(&mut self, align: usize) {
        if align > 1 {
            while self.buf.len() % align != 0 {
                self.buf.push(0);
            }
        }
    }
}

pub fn enc_bytes(enc: Enc, f: impl FnOnce(&mut W)) -> Vec<u8> {
    let mut w = W::new(enc);
    f(&mut w);
    w.buf
}

// ---- sizes per the ABI -------------------------------------------------------------------------
pub fn ehdr_size(e: Enc) -> usize {
    if e.c64 {
        64
    } else {
        52
    }
}
pub fn shdr_size(e: Enc) -> usize {
    if e.c64 {
        64
    } else {
        40
    }
}
pub fn phdr_size(e: Enc) -> usize {
    if e.c64 {
        56
    } else {
        32
    }
}
pub fn sym_size(e: Enc) -> usize {
    if e.c64 {
        24
    } else {
        16
    }
}
pub fn rel_size(e: Enc) -> usize {
    if e.c64 {
        16
    } else {
        8
    }
}
pub fn rela_size(e: Enc) -> usize {
    if e.c64 {
        24
    } else {
        12
    }
}
pub fn dyn_size(e: Enc) -> usize {
    if e.c64 {
        16
    } else {
        8
    }
}
pub fn chdr_size(e: Enc) -> usize {
    if e.c64 {
        24
    } else {
        12
    }
}
pub const NHDR_SIZE: usize = 12;
pub const VERDEF_SIZE: usize = 20;
pub const VERDAUX_SIZE: usize = 8;
pub const VERNEED_SIZE: usize = 16;
pub const VERNAUX_SIZE: usize = 16;

// ---- model structures (class-agnostic; fields wider than the ELF32 encoding are truncated on write)

#[derive(Clone, Debug, PartialEq, Eq, Default)]
pub struct Ehdr {
    pub ident: [u8; 16],
    pub e_type: u16,
    pub e_machine: u16,
    pub e_version: u32,
    pub e_entry: u64,
    pub e_phoff: u64,
    pub e_shoff: u64,
    pub e_flags: u32,
    pub e_ehsize: u16,
    pub e_phentsize: u16,
    pub e_phnum: u16,
    pub e_shentsize: u16,
    pub e_shnum: u16,
    pub e_shstrndx: u16,
}

pub fn ident(enc: Enc, osabi: u8, abiver: u8) -> [u8; 16] {
    let mut i = [0u8; 16];
    i[0] = 0x7f;
    i[1] = b'E';
    i[2] = b'L';
    i[3] = b'F';
    i[4] = if enc.c64 { 2 } else { 1 };
    i[5] = if enc.le { 1 } else { 2 };
    i[6] = 1;
    i[7] = osabi;
    i[8] = abiver;
    i
}

impl Ehdr {
    pub fn write(&self, w: &mut W) {
        w.bytes(&self.ident);
        w.u16(self.e_type);
        w.u16(self.e_machine);
        w.u32(self.e_version);
        w.word(self.e_entry);
        w.word(self.e_phoff);
        w.word(self.e_shoff);
        w.u32(self.e_flags);
        w.u16(self.e_ehsize);
        w.u16(self.e_phentsize);
        w.u16(self.e_phnum);
        w.u16(self.e_shentsize);
        w.u16(self.e_shnum);
        w.u16(self.e_shstrndx);
    }
}

#[derive(Clone, Copy, Debug, PartialEq, Eq, Default, Hash)]
pub struct Shdr {
    pub sh_name: u32,
    pub sh_type: u32,
    pub sh_flags: u64,
    pub sh_addr: u64,
    pub sh_offset: u64,
    pub sh_size: u64,
    pub sh_link: u32,
    pub sh_info: u32,
    pub sh_addralign: u64,
    pub sh_entsize: u64,
}

impl Shdr {
    pub fn write(&self, w: &mut W) {
        w.u32(self.sh_name);
        w.u32(self.sh_type);
        w.word(self.sh_flags);
        w.word(self.sh_addr);
        w.word(self.sh_offset);
        w.word(self.sh_size);
        w.u32(self.sh_link);
        w.u32(self.sh_info);
        w.word(self.sh_addralign);
        w.word(self.sh_entsize);
    }
    /// the value the file really holds (ELF32 truncates the word-sized fields)
    pub fn as_written(&self, e: Enc) -> Shdr {
        let m = e.word_mask();
        Shdr {
            sh_flags: self.sh_flags & m,
            sh_addr: self.sh_addr & m,
            sh_offset: self.sh_offset & m,
            sh_size: self.sh_size & m,
            sh_addralign: self.sh_addralign & m,
            sh_entsize: self.sh_entsize & m,
            ..*self
        }
    }
}

#[derive(Clone, Copy, Debug, PartialEq, Eq, Default, Hash)]
pub struct Phdr {
    pub p_type: u32,
    pub p_flags: u32,
    pub p_offset: u64,
    pub p_vaddr: u64,
    pub p_paddr: u64,
    pub p_filesz: u64,
    pub p_memsz: u64,
    pub p_align: u64,
}

impl Phdr {
    pub fn write(&self, w: &mut W) {
        if w.enc.c64 {
            w.u32(self.p_type);
            w.u32(self.p_flags);
            w.u64(self.p_offset);
            w.u64(self.p_vaddr);
            w.u64(self.p_paddr);
            w.u64(self.p_filesz);
            w.u64(self.p_memsz);
            w.u64(self.p_align);
        } else {
            w.u32(self.p_type);
            w.u32(self.p_offset as u32);
            w.u32(self.p_vaddr as u32);
            w.u32(self.p_paddr as u32);
            w.u32(self.p_filesz as u32);
            w.u32(self.p_memsz as u32);
            w.u32(self.p_flags);
            w.u32(self.p_align as u32);
        }
    }
    pub fn as_written(&self, e: Enc) -> Phdr {
        let m = e.word_mask();
        Phdr {
            p_offset: self.p_offset & m,
            p_vaddr: self.p_vaddr & m,
            p_paddr: self.p_paddr & m,
            p_filesz: self.p_filesz & m,
            p_memsz: self.p_memsz & m,
            p_align: self.p_align & m,
            ..*self
        }
    }
}

#[derive(Clone, Copy, Debug, PartialEq, Eq, Default, Hash)]
pub struct Sym {
    pub st_name: u32,
    pub st_info: u8,
    pub st_other: u8,
    pub st_shndx: u16,
    pub st_value: u64,
    pub st_size: u64,
}

impl Sym {
    pub fn write(&self, w: &mut W) {
        if w.enc.c64 {
            w.u32(self.st_name);
            w.u8(self.st_info);
            w.u8(self.st_other);
            w.u16(self.st_shndx);
            w.u64(self.st_value);
            w.u64(self.st_size);
        } else {
            w.u32(self.st_name);
            w.u32(self.st_value as u32);
            w.u32(self.st_size as u32);
            w.u8(self.st_info);
            w.u8(self.st_other);
            w.u16(self.st_shndx);
        }
    }
    pub fn as_written(&self, e: Enc) -> Sym {
        let m = e.word_mask();
        Sym { st_value: self.st_value & m, st_size: self.st_size & m, ..*self }
    }
}

/// ELF32_R_INFO(s,t) = (s<<8)+(unsigned char)t ; ELF64_R_INFO(s,t) = (s<<32)+t
pub fn r_info(e: Enc, sym: u32, typ: u32) -> u64 {
    if e.c64 {
        ((sym as u64) << 32) | typ as u64
    } else {
        (((sym & 0x00ff_ffff) << 8) | (typ & 0xff)) as u64
    }
}
/// ELF32_R_SYM(i) = i>>8, ELF32_R_TYPE(i) = (unsigned char)i ; ELF64: i>>32, i&0xffffffff
pub fn r_split(e: Enc, info: u64) -> (u32, u32) {
    if e.c64 {
        ((info >> 32) as u32, (info & 0xffff_ffff) as u32)
    } else {
        let i = info as u32;
        (i >> 8, i & 0xff)
    }
}

#[derive(Clone, Copy, Debug, PartialEq, Eq, Default, Hash)]
pub struct Rel {
    pub r_offset: u64,
    pub r_info: u64,
}
impl Rel {
    pub fn write(&self, w: &mut W) {
        w.word(self.r_offset);
        w.word(self.r_info);
    }
}

#[derive(Clone, Copy, Debug, PartialEq, Eq, Default, Hash)]
pub struct Rela {
    pub r_offset: u64,
    pub r_info: u64,
    pub r_addend: i64,
}
impl Rela {
    pub fn write(&self, w: &mut W) {
        w.word(self.r_offset);
        w.word(self.r_info);
        w.word(self.r_addend as u64);
    }
}

#[derive(Clone, Copy, Debug, PartialEq, Eq, Default, Hash)]
pub struct Dyn {
    pub d_tag: i64,
    pub d_un: u64,
}
impl Dyn {
    pub fn write(&self, w: &mut W) {
        w.word(self.d_tag as u64);
        w.word(self.d_un);
    }
}

#[derive(Clone, Copy, Debug, PartialEq, Eq, Default, Hash)]
pub struct Chdr {
    pub ch_type: u32,
    pub ch_reserved: u32,
    pub ch_size: u64,
    pub ch_addralign: u64,
}
impl Chdr {
    pub fn write(&self, w: &mut W) {
        if w.enc.c64 {
            w.u32(self.ch_type);
            w.u32(self.ch_reserved);
            w.u64(self.ch_size);
            w.u64(self.ch_addralign);
        } else {
            w.u32(self.ch_type);
            w.u32(self.ch_size as u32);
            w.u32(self.ch_addralign as u32);
        }
    }
}

/// Note record: 12-byte header of three 32-bit words (both classes), name, pad, desc, pad.
#[derive(Clone, Debug, PartialEq, Eq, Default, Hash)]
pub struct NoteRec {
    pub n_type: u32,
    pub name: Vec<u8>,
    pub desc: Vec<u8>,
}
impl NoteRec {
    pub fn write(&self, w: &mut W, base: usize, align: usize) {
        w.u32(self.name.len() as u32);
        w.u32(self.desc.len() as u32);
        w.u32(self.n_type);
        w.bytes(&self.name);
        pad_rel(w, base, align);
        w.bytes(&self.desc);
        pad_rel(w, base, align);
    }
}
fn pad_rel(w: &mut W, base: usize, align: usize) {
    if align > 1 {
        while (w.buf.len() - base) % align != 0 {
            w.buf.push(0);
        }
    }
}

#[derive(Clone, Copy, Debug, PartialEq, Eq, Default, Hash)]
pub struct Verdef {
    pub vd_version: u16,
    pub vd_flags: u16,
    pub vd_ndx: u16,
    pub vd_cnt: u16,
    pub vd_hash: u32,
    pub vd_aux: u32,
    pub vd_next: u32,
}
impl Verdef {
    pub fn write(&self, w: &mut W) {
        w.u16(self.vd_version);
        w.u16(self.vd_flags);
        w.u16(self.vd_ndx);
        w.u16(self.vd_cnt);
        w.u32(self.vd_hash);
        w.u32(self.vd_aux);
        w.u32(self.vd_next);
    }
}
#[derive(Clone, Copy, Debug, PartialEq, Eq, Default, Hash)]
pub struct Verdaux {
    pub vda_name: u32,
    pub vda_next: u32,
}
impl Verdaux {
    pub fn write(&self, w: &mut W) {
        w.u32(self.vda_name);
        w.u32(self.vda_next);
    }
}
#[derive(Clone, Copy, Debug, PartialEq, Eq, Default, Hash)]
pub struct Verneed {
    pub vn_version: u16,
    pub vn_cnt: u16,
    pub vn_file: u32,
    pub vn_aux: u32,
    pub vn_next: u32,
}
impl Verneed {
    pub fn write(&self, w: &mut W) {
        w.u16(self.vn_version);
        w.u16(self.vn_cnt);
        w.u32(self.vn_file);
        w.u32(self.vn_aux);
        w.u32(self.vn_next);
    }
}
#[derive(Clone, Copy, Debug, PartialEq, Eq, Default, Hash)]
pub struct Vernaux {
    pub vna_hash: u32,
    pub vna_flags: u16,
    pub vna_other: u16,
    pub vna_name: u32,
    pub vna_next: u32,
}
impl Vernaux {
    pub fn write(&self, w: &mut W) {
        w.u32(self.vna_hash);
        w.u16(self.vna_flags);
        w.u16(self.vna_other);
        w.u32(self.vna_name);
        w.u32(self.vna_next);
    }
}

/// String table builder: offset 0 is the empty string.
#[derive(Clone, Debug, Default)]
pub struct StrTab {
    pub data: Vec<u8>,
}
impl StrTab {
    pub fn new() -> StrTab {
        StrTab { data: vec![0] }
    }
    pub fn add(&mut self, s: &[u8]) -> u32 {
        if s.is_empty() {
            return 0;
        }
        let off = self.data.len() as u32;
        self.data.extend_from_slice(s);
        self.data.push(0);
        off
    }
}

// ---- constants used by the generators (from the gABI; values checked against the reference table by C19)
pub const SHT_NULL: u32 = 0;
pub const SHT_PROGBITS: u32 = 1;
pub const SHT_SYMTAB: u32 = 2;
pub const SHT_STRTAB: u32 = 3;
pub const SHT_RELA: u32 = 4;
pub const SHT_HASH: u32 = 5;
pub const SHT_DYNAMIC: u32 = 6;
pub const SHT_NOTE: u32 = 7;
pub const SHT_NOBITS: u32 = 8;
pub const SHT_REL: u32 = 9;
pub const SHT_DYNSYM: u32 = 11;
pub const SHT_GNU_HASH: u32 = 0x6fff_fff6;
pub const SHT_GNU_VERDEF: u32 = 0x6fff_fffd;
pub const SHT_GNU_VERNEED: u32 = 0x6fff_fffe;
pub const SHT_GNU_VERSYM: u32 = 0x6fff_ffff;
pub const SHF_COMPRESSED: u64 = 0x800;
pub const PT_NULL: u32 = 0;
pub const PT_LOAD: u32 = 1;
pub const PT_DYNAMIC: u32 = 2;
pub const PT_NOTE: u32 = 4;
pub const SHN_XINDEX: u16 = 0xffff;
pub const PN_XNUM: u16 = 0xffff;
pub const SHN_LORESERVE: u32 = 0xff00;

// ---- self-check against the C headers -------------------------------------------------------------

/// One row of reference/struct_layout.tsv: struct, field, offset, size, struct_size
#[derive(Clone, Debug)]
pub struct LayoutRow {
    pub strukt: String,
    pub field: String,
    pub offset: usize,
    pub size: usize,
    pub struct_size: usize,
}

pub fn parse_layout(tsv: &str) -> Vec<LayoutRow> {
    tsv.lines()
        .filter(|l| !l.starts_with('#') && !l.trim().is_empty())
        .filter_map(|l| {
            let f: Vec<&str> = l.split('\t').collect();
            if f.len() < 5 {
                return None;
            }
            Some(LayoutRow { strukt: f[0].into(), field: f[1].into(), offset: f[2].parse().ok()?, size: f[3].parse().ok()?, struct_size: f[4].parse().ok()? })
        })
        .collect()
}

fn rd(enc: Enc, b: &[u8]) -> u64 {
    let mut v = 0u64;
    if enc.le {
        for (i, x) in b.iter().enumerate() {
            v |= (*x as u64) << (8 * i);
        }
    } else {
        for x in b {
            v = (v << 8) | *x as u64;
        }
    }
    v
}

/// Check the writer against the <elf.h> layout: every structure is written with distinct field values
/// and each field must be found at its C offset with its C size. Returns the number of fields checked.
pub fn selfcheck(layout: &[LayoutRow]) -> Result<usize, String> {
    let mut checked = 0;
    for enc in ALL_ENC {
        let pre = if enc.c64 { "Elf64_" } else { "Elf32_" };
        let mut tables: Vec<(String, Vec<u8>, Vec<(&'static str, u64)>)> = vec![];
        let m = enc.word_mask();
        let eh = Ehdr { ident: ident(enc, 3, 4), e_type: 0x0102, e_machine: 0x0304, e_version: 0x05060708, e_entry: 0x1112131415161718, e_phoff: 0x2122232425262728, e_shoff: 0x3132333435363738, e_flags: 0x41424344, e_ehsize: 0x5152, e_phentsize: 0x6162, e_phnum: 0x7172, e_shentsize: 0x8182, e_shnum: 0x9192, e_shstrndx: 0xa1a2 };
        tables.push((format!("{}Ehdr", pre), enc_bytes(enc, |w| eh.write(w)), vec![("e_type", 0x0102), ("e_machine", 0x0304), ("e_version", 0x05060708), ("e_entry", 0x1112131415161718 & m), ("e_phoff", 0x2122232425262728 & m), ("e_shoff", 0x3132333435363738 & m), ("e_flags", 0x41424344), ("e_ehsize", 0x5152), ("e_phentsize", 0x6162), ("e_phnum", 0x7172), ("e_shentsize", 0x8182), ("e_shnum", 0x9192), ("e_shstrndx", 0xa1a2)]));
        let sh = Shdr { sh_name: 0x01020304, sh_type: 0x11121314, sh_flags: 0x2122232425262728, sh_addr: 0x3132333435363738, sh_offset: 0x4142434445464748, sh_size: 0x5152535455565758, sh_link: 0x61626364, sh_info: 0x71727374, sh_addralign: 0x8182838485868788, sh_entsize: 0x9192939495969798 };
        tables.push((format!("{}Shdr", pre), enc_bytes(enc, |w| sh.write(w)), vec![("sh_name", 0x01020304), ("sh_type", 0x11121314), ("sh_flags", 0x2122232425262728 & m), ("sh_addr", 0x3132333435363738 & m), ("sh_offset", 0x4142434445464748 & m), ("sh_size", 0x5152535455565758 & m), ("sh_link", 0x61626364), ("sh_info", 0x71727374), ("sh_addralign", 0x8182838485868788 & m), ("sh_entsize", 0x9192939495969798 & m)]));
        let ph = Phdr { p_type: 0x01020304, p_flags: 0x11121314, p_offset: 0x2122232425262728, p_vaddr: 0x3132333435363738, p_paddr: 0x4142434445464748, p_filesz: 0x5152535455565758, p_memsz: 0x6162636465666768, p_align: 0x7172737475767778 };
        tables.push((format!("{}Phdr", pre), enc_bytes(enc, |w| ph.write(w)), vec![("p_type", 0x01020304), ("p_flags", 0x11121314), ("p_offset", 0x2122232425262728 & m), ("p_vaddr", 0x3132333435363738 & m), ("p_paddr", 0x4142434445464748 & m), ("p_filesz", 0x5152535455565758 & m), ("p_memsz", 0x6162636465666768 & m), ("p_align", 0x7172737475767778 & m)]));
        let sy = Sym { st_name: 0x01020304, st_info: 0x11, st_other: 0x21, st_shndx: 0x3132, st_value: 0x4142434445464748, st_size: 0x5152535455565758 };
        tables.push((format!("{}Sym", pre), enc_bytes(enc, |w| sy.write(w)), vec![("st_name", 0x01020304), ("st_info", 0x11), ("st_other", 0x21), ("st_shndx", 0x3132), ("st_value", 0x4142434445464748 & m), ("st_size", 0x5152535455565758 & m)]));
        let rl = Rel { r_offset: 0x0102030405060708, r_info: 0x1112131415161718 };
        tables.push((format!("{}Rel", pre), enc_bytes(enc, |w| rl.write(w)), vec![("r_offset", 0x0102030405060708 & m), ("r_info", 0x1112131415161718 & m)]));
        let ra = Rela { r_offset: 0x0102030405060708, r_info: 0x1112131415161718, r_addend: 0x2122232425262728 };
        tables.push((format!("{}Rela", pre), enc_bytes(enc, |w| ra.write(w)), vec![("r_offset", 0x0102030405060708 & m), ("r_info", 0x1112131415161718 & m), ("r_addend", 0x2122232425262728 & m)]));
        let dy = Dyn { d_tag: 0x0102030405060708, d_un: 0x1112131415161718 };
        tables.push((format!("{}Dyn", pre), enc_bytes(enc, |w| dy.write(w)), vec![("d_tag", 0x0102030405060708 & m), ("d_un", 0x1112131415161718 & m)]));
        let ch = Chdr { ch_type: 0x01020304, ch_reserved: 0x11121314, ch_size: 0x2122232425262728, ch_addralign: 0x3132333435363738 };
        let mut chf = vec![("ch_type", 0x01020304u64), ("ch_size", 0x2122232425262728 & m), ("ch_addralign", 0x3132333435363738 & m)];
        if enc.c64 {
            chf.push(("ch_reserved", 0x11121314));
        }
        tables.push((format!("{}Chdr", pre), enc_bytes(enc, |w| ch.write(w)), chf));
        let nt = NoteRec { n_type: 0x21222324, name: vec![], desc: vec![] };
        tables.push((format!("{}Nhdr", pre), enc_bytes(enc, |w| nt.write(w, 0, 4)), vec![("n_namesz", 0), ("n_descsz", 0), ("n_type", 0x21222324)]));
        let vd = Verdef { vd_version: 0x0102, vd_flags: 0x1112, vd_ndx: 0x2122, vd_cnt: 0x3132, vd_hash: 0x41424344, vd_aux: 0x51525354, vd_next: 0x61626364 };
        tables.push((format!("{}Verdef", pre), enc_bytes(enc, |w| vd.write(w)), vec![("vd_version", 0x0102), ("vd_flags", 0x1112), ("vd_ndx", 0x2122), ("vd_cnt", 0x3132), ("vd_hash", 0x41424344), ("vd_aux", 0x51525354), ("vd_next", 0x61626364)]));
        let vda = Verdaux { vda_name: 0x01020304, vda_next: 0x11121314 };
        tables.push((format!("{}Verdaux", pre), enc_bytes(enc, |w| vda.write(w)), vec![("vda_name", 0x01020304), ("vda_next", 0x11121314)]));
        let vn = Verneed { vn_version: 0x0102, vn_cnt: 0x1112, vn_file: 0x21222324, vn_aux: 0x31323334, vn_next: 0x41424344 };
        tables.push((format!("{}Verneed", pre), enc_bytes(enc, |w| vn.write(w)), vec![("vn_version", 0x0102), ("vn_cnt", 0x1112), ("vn_file", 0x21222324), ("vn_aux", 0x31323334), ("vn_next", 0x41424344)]));
        let vna = Vernaux { vna_hash: 0x01020304, vna_flags: 0x1112, vna_other: 0x2122, vna_name: 0x31323334, vna_next: 0x41424344 };
        tables.push((format!("{}Vernaux", pre), enc_bytes(enc, |w| vna.write(w)), vec![("vna_hash", 0x01020304), ("vna_flags", 0x1112), ("vna_other", 0x2122), ("vna_name", 0x31323334), ("vna_next", 0x41424344)]));

        for (name, bytes, fields) in tables {
            let rows: Vec<&LayoutRow> = layout.iter().filter(|r| r.strukt == name).collect();
            if rows.is_empty() {
                return Err(format!("reference layout has no struct {}", name));
            }
            if rows[0].struct_size != bytes.len() {
                return Err(format!("{} ({}): writer emits {} bytes, <elf.h> says {}", name, enc.name(), bytes.len(), rows[0].struct_size));
            }
            for (f, v) in fields {
                let row = rows.iter().find(|r| r.field == f).ok_or_else(|| format!("reference layout has no field {}.{}", name, f))?;
                let got = rd(enc, &bytes[row.offset..row.offset + row.size]);
                let mask = if row.size >= 8 { u64::MAX } else { (1u64 << (8 * row.size)) - 1 };
                if got != v & mask {
                    return Err(format!("{}.{} ({}): at C offset {} size {} the writer put {:#x}, expected {:#x}", name, f, enc.name(), row.offset, row.size, got, v & mask));
                }
                checked += 1;
            }
        }
    }
    Ok(checked)
}
