//! Reference models and builders, written from the gABI / GNU documents: hash functions, hash-table
//! builders, symbol-table builder, note walker, symbol-version graph builder and independent readers.

use crate::choice::Choice;
use crate::elfw::*;

// ---- integer reads (independent of the crate) ---------------------------------------------------

pub fn rd_u16(le: bool, b: &[u8], off: usize) -> Option<u16> {
    let s = b.get(off..off.checked_add(2)?)?;
    Some(if le { u16::from_le_bytes([s[0], s[1]]) } else { u16::from_be_bytes([s[0], s[1]]) })
}
pub fn rd_u32(le: bool, b: &[u8], off: usize) -> Option<u32> {
    let s = b.get(off..off.checked_add(4)?)?;
    let a = [s[0], s[1], s[2], s[3]];
    Some(if le { u32::from_le_bytes(a) } else { u32::from_be_bytes(a) })
}
pub fn rd_u64(le: bool, b: &[u8], off: usize) -> Option<u64> {
    let s = b.get(off..off.checked_add(8)?)?;
    let mut a = [0u8; 8];
    a.copy_from_slice(s);
    Some(if le { u64::from_le_bytes(a) } else { u64::from_be_bytes(a) })
}
pub fn rd_word(e: Enc, b: &[u8], off: usize) -> Option<u64> {
    if e.c64 {
        rd_u64(e.le, b, off)
    } else {
        rd_u32(e.le, b, off).map(|v| v as u64)
    }
}

// ---- hash functions -------------------------------------------------------------------------------

/// The gABI `elf_hash` (Figure 5-13), in 32-bit arithmetic.
pub fn elf_hash(name: &[u8]) -> u32 {
    let mut h: u32 = 0;
    for &c in name {
        h = (h << 4).wrapping_add(c as u32);
        let g = h & 0xf000_0000;
        if g != 0 {
            h ^= g >> 24;
        }
        h &= !g;
    }
    h
}

/// GNU hash: djb2, h = h*33 + c, seed 5381.
pub fn djb2(name: &[u8]) -> u32 {
    let mut h: u32 = 5381;
    for &c in name {
        h = h.wrapping_mul(33).wrapping_add(c as u32);
    }
    h
}

/// Meet-in-the-middle table for djb2: p(s2) for every 4-letter lower-case string s2, where
/// p(s) = sum s[i]*33^(len-1-i) is the polynomial part (djb2(x+s) = djb2(x)*33^len + p(s)).
fn djb2_mitm() -> &'static std::collections::HashMap<u32, [u8; 4]> {
    static T: std::sync::OnceLock<std::collections::HashMap<u32, [u8; 4]>> = std::sync::OnceLock::new();
    T.get_or_init(|| {
        let mut m = std::collections::HashMap::with_capacity(500_000);
        for a in b'a'..=b'z' {
            for b in b'a'..=b'z' {
                for c in b'a'..=b'z' {
                    for d in b'a'..=b'z' {
                        let p = (a as u32).wrapping_mul(35937).wrapping_add((b as u32).wrapping_mul(1089)).wrapping_add((c as u32) * 33).wrapping_add(d as u32);
                        m.entry(p).or_insert([a, b, c, d]);
                    }
                }
            }
        }
        m
    })
}

/// An 8-letter suffix s with djb2(prefix + s) == target (None if the bounded search finds none).
pub fn djb2_suffix_to(prefix: &[u8], target: u32, salt: u32) -> Option<Vec<u8>> {
    let h0 = djb2(prefix);
    let p33_4: u32 = 1_185_921; // 33^4
    let p33_8: u32 = p33_4.wrapping_mul(p33_4);
    let need = target.wrapping_sub(h0.wrapping_mul(p33_8)); // p(s1 s2) = p(s1)*33^4 + p(s2)
    let table = djb2_mitm();
    // walk s1 candidates starting at a salt-dependent point so that different calls give different suffixes
    let mut k = salt % 456_976;
    for _ in 0..456_976u32 {
        let s1 = [b'a' + (k / 17_576 % 26) as u8, b'a' + (k / 676 % 26) as u8, b'a' + (k / 26 % 26) as u8, b'a' + (k % 26) as u8];
        let p1 = (s1[0] as u32).wrapping_mul(35937).wrapping_add((s1[1] as u32).wrapping_mul(1089)).wrapping_add((s1[2] as u32) * 33).wrapping_add(s1[3] as u32);
        let want = need.wrapping_sub(p1.wrapping_mul(p33_4));
        if let Some(s2) = table.get(&want) {
            let mut out = prefix.to_vec();
            out.extend_from_slice(&s1);
            out.extend_from_slice(s2);
            debug_assert_eq!(djb2(&out), target);
            return Some(out);
        }
        k = (k + 1) % 456_976;
    }
    None
}

/// A strictly longer name that has `name` as a proper prefix and the same djb2 hash.
pub fn djb2_extend_collide(name: &[u8], salt: u32) -> Option<Vec<u8>> {
    djb2_suffix_to(name, djb2(name), salt)
}

// ---- symbol table + string table -----------------------------------------------------------------

#[derive(Clone, Debug)]
pub struct SymTab {
    pub syms: Vec<Sym>,
    pub names: Vec<Vec<u8>>,
    pub symtab: Vec<u8>,
    pub strtab: Vec<u8>,
}

/// Build a symbol table whose entry i is named names[i] (entry 0 should be the null symbol with the
/// empty name). Equal names may or may not share a string-table entry (`share`).
pub fn build_symtab(enc: Enc, names: &[Vec<u8>], fields_seed: u64, share: bool) -> SymTab {
    let mut st = StrTab::new();
    let mut offs: Vec<(Vec<u8>, u32)> = vec![];
    let mut syms = vec![];
    let mut w = W::new(enc);
    let mut s = fields_seed;
    for (i, n) in names.iter().enumerate() {
        let off = if share {
            if let Some((_, o)) = offs.iter().find(|(k, _)| k == n) {
                *o
            } else if let Some((k, o)) = offs.iter().find(|(k, _)| !n.is_empty() && k.len() > n.len() && k.ends_with(n) && fields_seed % 2 == 1) {
                // tail merging as linkers do: "memset" stored as the tail of "use_memset"
                *o + (k.len() - n.len()) as u32
            } else {
                let o = st.add(n);
                offs.push((n.clone(), o));
                o
            }
        } else {
            st.add(n)
        };
        let r = crate::choice::splitmix(&mut s);
        let sym = if i == 0 {
            Sym { st_name: off, ..Default::default() }
        } else {
            // (one symbol in eight sits at the very top of the address space: value + size reaches or passes 2^64, which
            // is nobody's business when a symbol is merely looked up)
            let (v, sz) = if r % 8 == 0 { (u64::MAX - ((r >> 8) & 0xff), 0x100 + ((r >> 16) & 0xffff)) } else { ((r >> 3).wrapping_mul(i as u64 + 1), r >> 40) };
            Sym { st_name: off, st_info: (r >> 8) as u8, st_other: (r >> 16) as u8, st_shndx: (r >> 24) as u16, st_value: v, st_size: sz }
        };
        sym.write(&mut w);
        syms.push(sym.as_written(enc));
    }
    SymTab { syms, names: names.to_vec(), symtab: w.buf, strtab: st.data }
}

// ---- SysV hash table -------------------------------------------------------------------------------

/// Build a gABI .hash section for symbols 1..n (index 0 = STN_UNDEF ends every chain).
/// `head_insert[i]` chooses whether symbol i is linked at the head or the tail of its bucket chain.
pub fn build_sysv_hash(enc: Enc, names: &[Vec<u8>], nbucket: u32, head_insert: &dyn Fn(usize) -> bool) -> Vec<u8> {
    let n = names.len();
    let mut buckets = vec![0u32; nbucket as usize];
    let mut chains = vec![0u32; n];
    if nbucket > 0 {
        for i in 1..n {
            let b = (elf_hash(&names[i]) % nbucket) as usize;
            if buckets[b] == 0 {
                buckets[b] = i as u32;
            } else if head_insert(i) {
                chains[i] = buckets[b];
                buckets[b] = i as u32;
            } else {
                let mut j = buckets[b] as usize;
                while chains[j] != 0 {
                    j = chains[j] as usize;
                }
                chains[j] = i as u32;
            }
        }
    }
    let mut w = W::new(enc);
    w.u32(nbucket);
    w.u32(n as u32);
    for b in &buckets {
        w.u32(*b);
    }
    for c in &chains {
        w.u32(*c);
    }
    w.buf
}

// ---- GNU hash table --------------------------------------------------------------------------------

#[derive(Clone, Debug)]
pub struct GnuParams {
    pub nbucket: u32,
    pub nbloom: u32,
    pub shift: u32,
    pub symoffset: u32,
}

/// Sort the names to be hashed by bucket (stable), as the GNU format requires.
pub fn gnu_sort(names: &mut Vec<Vec<u8>>, nbucket: u32) {
    names.sort_by_key(|n| djb2(n) % nbucket);
}

/// Build a .gnu.hash section for symbols `symoffset..symoffset+hashed.len()`; `hashed` must already be
/// sorted by bucket (`gnu_sort`).
pub fn build_gnu_hash(enc: Enc, hashed: &[Vec<u8>], p: &GnuParams) -> Vec<u8> {
    let c: u32 = if enc.c64 { 64 } else { 32 };
    let mut bloom = vec![0u64; p.nbloom as usize];
    let mut buckets = vec![0u32; p.nbucket as usize];
    let mut chains = vec![0u32; hashed.len()];
    for (j, name) in hashed.iter().enumerate() {
        let h = djb2(name);
        let wi = ((h / c) % p.nbloom) as usize;
        bloom[wi] |= 1u64 << (h % c);
        bloom[wi] |= 1u64 << ((h >> p.shift) % c);
        let b = (h % p.nbucket) as usize;
        if buckets[b] == 0 {
            buckets[b] = p.symoffset + j as u32;
        }
        let last = j + 1 == hashed.len() || djb2(&hashed[j + 1]) % p.nbucket != h % p.nbucket;
        chains[j] = (h & !1) | last as u32;
    }
    let mut w = W::new(enc);
    w.u32(p.nbucket);
    w.u32(p.symoffset);
    w.u32(p.nbloom);
    w.u32(p.shift);
    for b in &bloom {
        if enc.c64 {
            w.u64(*b)
        } else {
            w.u32(*b as u32)
        }
    }
    for b in &buckets {
        w.u32(*b);
    }
    for x in &chains {
        w.u32(*x);
    }
    w.buf
}

/// A partner of `name` with the same djb2 hash: (a, b) -> (a+1, b-33) on the last two bytes.
pub fn djb2_collide(name: &[u8]) -> Option<Vec<u8>> {
    let l = name.len();
    if l >= 2 && name[l - 2] < 255 && name[l - 1] >= 34 {
        let mut q = name.to_vec();
        q[l - 2] += 1;
        q[l - 1] -= 33;
        if djb2(&q) == djb2(name) {
            return Some(q);
        }
    }
    if l >= 2 && name[l - 2] >= 2 && name[l - 1] <= 255 - 33 {
        let mut q = name.to_vec();
        q[l - 2] -= 1;
        q[l - 1] += 33;
        if djb2(&q) == djb2(name) && !q.contains(&0) {
            return Some(q);
        }
    }
    None
}

/// A partner of `name` with the same gABI elf_hash, found by a small search over two-byte tails.
pub fn elf_hash_collide(name: &[u8]) -> Option<Vec<u8>> {
    let l = name.len();
    if l < 2 {
        return None;
    }
    let target = elf_hash(name);
    // (a, b) -> (a+1, b-16) keeps h for short names (before the top-nibble fold matters)
    if name[l - 2] < 255 && name[l - 1] >= 17 {
        let mut q = name.to_vec();
        q[l - 2] += 1;
        q[l - 1] -= 16;
        if elf_hash(&q) == target && !q.contains(&0) {
            return Some(q);
        }
    }
    for a in 1..=255u8 {
        for b in 1..=255u8 {
            if a == name[l - 2] && b == name[l - 1] {
                continue;
            }
            let mut q = name.to_vec();
            q[l - 2] = a;
            q[l - 1] = b;
            if elf_hash(&q) == target {
                return Some(q);
            }
        }
    }
    None
}

// ---- notes ---------------------------------------------------------------------------------------

#[derive(Clone, Debug, PartialEq, Eq)]
pub struct RefNote {
    pub n_type: u32,
    pub name: (usize, usize),
    pub desc: (usize, usize),
    /// true when the record is ambiguous under "does not fit": zero-length descriptor whose padded start
    /// lies beyond the end of the data (see DESIGN section 7)
    pub ambiguous_tail: bool,
}

/// Reference walk of a note section: 12-byte header of three 32-bit words in file order (both classes),
/// name, pad to align, desc, pad to align; stops at the first record that does not fit.
pub fn walk_notes(le: bool, align: u64, data: &[u8]) -> (Vec<RefNote>, bool) {
    let mut out = vec![];
    let mut ambiguous = false;
    if align == 0 {
        return (out, false);
    }
    let len = data.len() as u128;
    let align = align as u128;
    let pad = |x: u128| -> u128 {
        if x % align == 0 {
            x
        } else {
            x + (align - x % align)
        }
    };
    let mut off: u128 = 0;
    loop {
        if off + 12 > len {
            break;
        }
        let o = off as usize;
        let namesz = rd_u32(le, data, o).unwrap() as u128;
        let descsz = rd_u32(le, data, o + 4).unwrap() as u128;
        let n_type = rd_u32(le, data, o + 8).unwrap();
        let name_start = off + 12;
        let name_end = name_start + namesz;
        if name_end > len {
            break;
        }
        let desc_start = pad(name_end);
        let desc_end = desc_start + descsz;
        if desc_end > len {
            if descsz == 0 && name_end <= len {
                // name fits, empty descriptor would start in the padding beyond the data
                ambiguous = true;
            }
            break;
        }
        if desc_start > u64::MAX as u128 {
            break;
        }
        out.push(RefNote { n_type, name: (name_start as usize, name_end as usize), desc: (desc_start as usize, desc_end as usize), ambiguous_tail: false });
        off = pad(desc_end);
        if off > u64::MAX as u128 {
            break;
        }
    }
    (out, ambiguous)
}

// ---- symbol versioning ---------------------------------------------------------------------------

#[derive(Clone, Debug)]
pub struct VAux {
    pub name: String,
    pub hash: u32,
    pub flags: u16,
    pub other: u16,
}
#[derive(Clone, Debug)]
pub struct VNeed {
    pub file: String,
    pub auxes: Vec<VAux>,
}
#[derive(Clone, Debug)]
pub struct VDef {
    pub ndx: u16,
    pub flags: u16,
    pub hash: u32,
    pub names: Vec<String>,
}
#[derive(Clone, Debug, Default)]
pub struct VerModel {
    pub needs: Vec<VNeed>,
    pub defs: Vec<VDef>,
    pub versym: Vec<u16>,
}

#[derive(Clone, Debug, Default)]
pub struct VerSections {
    pub versym: Vec<u8>,
    pub verneed: Vec<u8>,
    pub verdef: Vec<u8>,
    pub need_strs: Vec<u8>,
    pub def_strs: Vec<u8>,
    /// true if some aux chain is not laid out directly behind its parent / some gap exists
    pub non_contiguous: bool,
}

#[derive(Clone, Copy, Debug, PartialEq, Eq)]
enum Tok {
    Head(usize),
    Aux(usize, usize),
}

/// Random linear extension of the forward partial order: Head(i) < Head(i+1), Head(i) < Aux(i,0),
/// Aux(i,j) < Aux(i,j+1). The first token is Head(0). `contiguous` gives the linker's layout.
fn order_tokens(counts: &[usize], c: &mut Choice, contiguous: bool) -> Vec<Tok> {
    let mut out = vec![];
    if contiguous {
        for (i, n) in counts.iter().enumerate() {
            out.push(Tok::Head(i));
            for j in 0..*n {
                out.push(Tok::Aux(i, j));
            }
        }
        return out;
    }
    let nh = counts.len();
    let mut next_head = 0usize;
    let mut next_aux: Vec<usize> = vec![0; nh];
    let total: usize = nh + counts.iter().sum::<usize>();
    while out.len() < total {
        // available: next head, and the next aux of every already placed head
        let mut avail: Vec<Tok> = vec![];
        if next_head < nh {
            avail.push(Tok::Head(next_head));
        }
        for i in 0..next_head {
            if next_aux[i] < counts[i] {
                avail.push(Tok::Aux(i, next_aux[i]));
            }
        }
        let t = avail[c.idx(avail.len())];
        match t {
            Tok::Head(_) => next_head += 1,
            Tok::Aux(i, _) => next_aux[i] += 1,
        }
        out.push(t);
    }
    out
}

/// Lay out the sections of a version model. `c` drives the record order and the gaps.
pub fn build_versions(enc: Enc, model: &VerModel, c: &mut Choice, contiguous: bool, share_strtab: bool) -> VerSections {
    let mut out = VerSections::default();
    let mut w = W::new(enc);
    for v in &model.versym {
        w.u16(*v);
    }
    out.versym = w.buf;

    let mut nstr = StrTab::new();
    // --- verneed
    if !model.needs.is_empty() {
        let counts: Vec<usize> = model.needs.iter().map(|n| n.auxes.len()).collect();
        let toks = order_tokens(&counts, c, contiguous);
        let mut offs_h = vec![0usize; counts.len()];
        let mut offs_a: Vec<Vec<usize>> = counts.iter().map(|n| vec![0usize; *n]).collect();
        let mut cur = 0usize;
        for (k, t) in toks.iter().enumerate() {
            if k > 0 && !contiguous && c.chance(70) {
                cur += 1 + c.below(24) as usize;
                out.non_contiguous = true;
            }
            match *t {
                Tok::Head(i) => {
                    offs_h[i] = cur;
                    cur += VERNEED_SIZE;
                }
                Tok::Aux(i, j) => {
                    offs_a[i][j] = cur;
                    cur += VERNAUX_SIZE;
                }
            }
        }
        let tail = if contiguous { 0 } else { c.below(12) as usize };
        let mut sec = vec![0u8; cur + tail];
        crate::choice::fill(0x5eed ^ cur as u64, &mut sec);
        for (i, need) in model.needs.iter().enumerate() {
            let file = nstr.add(need.file.as_bytes());
            let h = Verneed {
                vn_version: 1,
                vn_cnt: need.auxes.len() as u16,
                vn_file: file,
                vn_aux: if need.auxes.is_empty() { 0 } else { (offs_a[i][0] - offs_h[i]) as u32 },
                vn_next: if i + 1 < model.needs.len() { (offs_h[i + 1] - offs_h[i]) as u32 } else { 0 },
            };
            if !need.auxes.is_empty() && offs_a[i][0] != offs_h[i] + VERNEED_SIZE {
                out.non_contiguous = true;
            }
            let b = enc_bytes(enc, |w| h.write(w));
            sec[offs_h[i]..offs_h[i] + VERNEED_SIZE].copy_from_slice(&b);
            for (j, a) in need.auxes.iter().enumerate() {
                let name = nstr.add(a.name.as_bytes());
                let x = Vernaux { vna_hash: a.hash, vna_flags: a.flags, vna_other: a.other, vna_name: name, vna_next: if j + 1 < need.auxes.len() { (offs_a[i][j + 1] - offs_a[i][j]) as u32 } else { 0 } };
                if j + 1 < need.auxes.len() && offs_a[i][j + 1] != offs_a[i][j] + VERNAUX_SIZE {
                    out.non_contiguous = true;
                }
                let b = enc_bytes(enc, |w| x.write(w));
                sec[offs_a[i][j]..offs_a[i][j] + VERNAUX_SIZE].copy_from_slice(&b);
            }
        }
        out.verneed = sec;
    }
    // --- verdef
    let mut dstr_own = StrTab::new();
    if !model.defs.is_empty() {
        let counts: Vec<usize> = model.defs.iter().map(|d| d.names.len()).collect();
        let toks = order_tokens(&counts, c, contiguous);
        let mut offs_h = vec![0usize; counts.len()];
        let mut offs_a: Vec<Vec<usize>> = counts.iter().map(|n| vec![0usize; *n]).collect();
        let mut cur = 0usize;
        for (k, t) in toks.iter().enumerate() {
            if k > 0 && !contiguous && c.chance(70) {
                cur += 1 + c.below(24) as usize;
                out.non_contiguous = true;
            }
            match *t {
                Tok::Head(i) => {
                    offs_h[i] = cur;
                    cur += VERDEF_SIZE;
                }
                Tok::Aux(i, j) => {
                    offs_a[i][j] = cur;
                    cur += VERDAUX_SIZE;
                }
            }
        }
        let tail = if contiguous { 0 } else { c.below(12) as usize };
        let mut sec = vec![0u8; cur + tail];
        crate::choice::fill(0xdef5 ^ cur as u64, &mut sec);
        for (i, d) in model.defs.iter().enumerate() {
            let h = Verdef {
                vd_version: 1,
                vd_flags: d.flags,
                vd_ndx: d.ndx,
                vd_cnt: d.names.len() as u16,
                vd_hash: d.hash,
                vd_aux: if d.names.is_empty() { 0 } else { (offs_a[i][0] - offs_h[i]) as u32 },
                vd_next: if i + 1 < model.defs.len() { (offs_h[i + 1] - offs_h[i]) as u32 } else { 0 },
            };
            if !d.names.is_empty() && offs_a[i][0] != offs_h[i] + VERDEF_SIZE {
                out.non_contiguous = true;
            }
            let b = enc_bytes(enc, |w| h.write(w));
            sec[offs_h[i]..offs_h[i] + VERDEF_SIZE].copy_from_slice(&b);
            for (j, nm) in d.names.iter().enumerate() {
                let name = if share_strtab { nstr.add(nm.as_bytes()) } else { dstr_own.add(nm.as_bytes()) };
                let x = Verdaux { vda_name: name, vda_next: if j + 1 < d.names.len() { (offs_a[i][j + 1] - offs_a[i][j]) as u32 } else { 0 } };
                if j + 1 < d.names.len() && offs_a[i][j + 1] != offs_a[i][j] + VERDAUX_SIZE {
                    out.non_contiguous = true;
                }
                let b = enc_bytes(enc, |w| x.write(w));
                sec[offs_a[i][j]..offs_a[i][j] + VERDAUX_SIZE].copy_from_slice(&b);
            }
        }
        out.verdef = sec;
    }
    out.need_strs = nstr.data.clone();
    out.def_strs = if share_strtab { nstr.data } else { dstr_own.data };
    out
}

/// Generate a version model from a choice sequence: unique indexes (needs >= 2, defs >= 1, disjoint),
/// UTF-8 names, vna_other without bit 15.
pub fn gen_version_model(c: &mut Choice, max_needs: usize, max_aux: usize, max_defs: usize, nsyms_max: usize) -> VerModel {
    let mut m = VerModel::default();
    let mut used: Vec<u16> = vec![];
    let fresh = |c: &mut Choice, used: &mut Vec<u16>, lo: u16| -> u16 {
        loop {
            let v = match c.below(6) {
                0 => 0x7fff - c.below(4) as u16,
                1 => 0x100 + c.below(0x7000) as u16,
                _ => lo + c.below(60) as u16,
            };
            let v = v.max(lo);
            if !used.contains(&v) {
                used.push(v);
                return v;
            }
            // deterministic fallback: first free index
            let mut k = lo;
            while used.contains(&k) {
                k += 1;
            }
            used.push(k);
            return k;
        }
    };
    let word = |c: &mut Choice, pre: &str| -> String {
        const W: [&str; 8] = ["GLIBC_2.2.5", "GLIBC_2.34", "LIBFOO_1.0", "V\u{e9}rsion", "X", "libc.so.6", "libm.so.6", "HELLO_1.42"];
        if c.chance(60) {
            format!("{}{}", pre, c.below(1000))
        } else {
            format!("{}{}", W[c.idx(W.len())], if c.bool() { String::new() } else { format!(".{}", c.below(50)) })
        }
    };
    // one model in 16 lists the reserved indexes: an auxiliary record numbered 0 or 1, a definition numbered 0
    // ("local 0 / global 1 when unlisted" in the statement implies they can be listed; matching is by index alone)
    let lists_reserved = c.u8() >= 240;
    let mut reserved_aux: Option<u16> = if lists_reserved && c.bool() { Some(c.below(2) as u16) } else { None };
    let mut reserved_def: Option<u16> = if lists_reserved { Some(0) } else { None };
    let nn = match c.below(4) {
        0 => 0,
        1 => 1 + c.below(2) as usize,
        _ => c.below(max_needs as u64 + 1) as usize,
    };
    for _ in 0..nn {
        let na = match c.below(6) {
            0 | 1 => 0,
            2 => 1,
            _ => c.below(max_aux as u64 + 1) as usize,
        };
        let mut auxes = vec![];
        for _ in 0..na {
            let name = word(c, "VER_");
            let other = match reserved_aux.take() {
                Some(r) if !used.contains(&r) => {
                    used.push(r);
                    r
                }
                _ => fresh(c, &mut used, 2),
            };
            auxes.push(VAux { hash: if c.bool() { elf_hash(name.as_bytes()) } else { c.field(32) as u32 }, name, flags: c.field(16) as u16, other });
        }
        m.needs.push(VNeed { file: word(c, "lib"), auxes });
    }
    let nd = match c.below(4) {
        0 => 0,
        1 => 1 + c.below(2) as usize,
        _ => c.below(max_defs as u64 + 1) as usize,
    };
    for _ in 0..nd {
        let nnames = 1 + c.below(5) as usize;
        let names: Vec<String> = (0..nnames).map(|_| word(c, "DEF_")).collect();
        let ndx = match reserved_def.take() {
            Some(r) if !used.contains(&r) => {
                used.push(r);
                r
            }
            _ => fresh(c, &mut used, 1),
        };
        m.defs.push(VDef { ndx, flags: c.field(16) as u16, hash: if c.bool() { elf_hash(names[0].as_bytes()) } else { c.field(32) as u32 }, names });
    }
    let ns = c.below(nsyms_max as u64 + 1) as usize;
    for _ in 0..ns {
        let base: u16 = match c.below(8) {
            0 => 0,
            1 => 1,
            2 => c.field(16) as u16 & 0x7fff,
            _ => {
                if used.is_empty() {
                    c.below(4) as u16
                } else {
                    used[c.idx(used.len())]
                }
            }
        };
        let hidden = if c.chance(90) { 0x8000 } else { 0 };
        m.versym.push(base | hidden);
    }
    m
}

// ---- independent header reader (used to locate fields of the linker-produced sample objects) -------

pub fn read_ehdr(b: &[u8]) -> Option<(Enc, Ehdr)> {
    if b.len() < 16 || &b[0..4] != b"\x7fELF" {
        return None;
    }
    let c64 = match b[4] {
        1 => false,
        2 => true,
        _ => return None,
    };
    let le = match b[5] {
        1 => true,
        2 => false,
        _ => return None,
    };
    let e = Enc { c64, le };
    let mut ident = [0u8; 16];
    ident.copy_from_slice(&b[..16]);
    let mut o = 16;
    let e_type = rd_u16(le, b, o)?;
    let e_machine = rd_u16(le, b, o + 2)?;
    let e_version = rd_u32(le, b, o + 4)?;
    o += 8;
    let ws = if c64 { 8 } else { 4 };
    let e_entry = rd_word(e, b, o)?;
    let e_phoff = rd_word(e, b, o + ws)?;
    let e_shoff = rd_word(e, b, o + 2 * ws)?;
    o += 3 * ws;
    let e_flags = rd_u32(le, b, o)?;
    o += 4;
    let h = Ehdr { ident, e_type, e_machine, e_version, e_entry, e_phoff, e_shoff, e_flags, e_ehsize: rd_u16(le, b, o)?, e_phentsize: rd_u16(le, b, o + 2)?, e_phnum: rd_u16(le, b, o + 4)?, e_shentsize: rd_u16(le, b, o + 6)?, e_shnum: rd_u16(le, b, o + 8)?, e_shstrndx: rd_u16(le, b, o + 10)? };
    Some((e, h))
}

pub fn read_shdr(e: Enc, b: &[u8], off: usize) -> Option<Shdr> {
    let le = e.le;
    if off.checked_add(64)? > b.len() + 64 {
        return None;
    }
    if e.c64 {
        Some(Shdr { sh_name: rd_u32(le, b, off)?, sh_type: rd_u32(le, b, off + 4)?, sh_flags: rd_u64(le, b, off + 8)?, sh_addr: rd_u64(le, b, off + 16)?, sh_offset: rd_u64(le, b, off + 24)?, sh_size: rd_u64(le, b, off + 32)?, sh_link: rd_u32(le, b, off + 40)?, sh_info: rd_u32(le, b, off + 44)?, sh_addralign: rd_u64(le, b, off + 48)?, sh_entsize: rd_u64(le, b, off + 56)? })
    } else {
        let f = |k: usize| rd_u32(le, b, off + 4 * k);
        Some(Shdr { sh_name: f(0)?, sh_type: f(1)?, sh_flags: f(2)? as u64, sh_addr: f(3)? as u64, sh_offset: f(4)? as u64, sh_size: f(5)? as u64, sh_link: f(6)?, sh_info: f(7)?, sh_addralign: f(8)? as u64, sh_entsize: f(9)? as u64 })
    }
}

pub fn read_phdr(e: Enc, b: &[u8], off: usize) -> Option<Phdr> {
    let le = e.le;
    if off.checked_add(64)? > b.len() + 64 {
        return None;
    }
    if e.c64 {
        Some(Phdr { p_type: rd_u32(le, b, off)?, p_flags: rd_u32(le, b, off + 4)?, p_offset: rd_u64(le, b, off + 8)?, p_vaddr: rd_u64(le, b, off + 16)?, p_paddr: rd_u64(le, b, off + 24)?, p_filesz: rd_u64(le, b, off + 32)?, p_memsz: rd_u64(le, b, off + 40)?, p_align: rd_u64(le, b, off + 48)? })
    } else {
        let f = |k: usize| rd_u32(le, b, off + 4 * k);
        Some(Phdr { p_type: f(0)?, p_offset: f(1)? as u64, p_vaddr: f(2)? as u64, p_paddr: f(3)? as u64, p_filesz: f(4)? as u64, p_memsz: f(5)? as u64, p_flags: f(6)?, p_align: f(7)? as u64 })
    }
}

/// Writer self-check on linker-produced bytes: every header of a sample object, decoded by the reader
/// above and re-encoded by the writer, must reproduce the original file bytes. Returns headers checked.
pub fn roundtrip_headers(b: &[u8]) -> Result<usize, String> {
    let (e, eh) = read_ehdr(b).ok_or("not an ELF header")?;
    let mut n = 0;
    let eb = enc_bytes(e, |w| eh.write(w));
    if b.get(..eb.len()) != Some(&eb[..]) {
        return Err("re-encoded ELF header differs from the file bytes".into());
    }
    n += 1;
    if eh.e_shoff != 0 && eh.e_shnum != 0 {
        for i in 0..eh.e_shnum as usize {
            let off = eh.e_shoff as usize + i * shdr_size(e);
            let h = read_shdr(e, b, off).ok_or("short section header table")?;
            let hb = enc_bytes(e, |w| h.write(w));
            if b.get(off..off + hb.len()) != Some(&hb[..]) {
                return Err(format!("re-encoded section header {} differs from the file bytes", i));
            }
            n += 1;
        }
    }
    if eh.e_phoff != 0 && eh.e_phnum != 0 && eh.e_phnum != 0xffff {
        for i in 0..eh.e_phnum as usize {
            let off = eh.e_phoff as usize + i * phdr_size(e);
            let h = read_phdr(e, b, off).ok_or("short program header table")?;
            let hb = enc_bytes(e, |w| h.write(w));
            if b.get(off..off + hb.len()) != Some(&hb[..]) {
                return Err(format!("re-encoded program header {} differs from the file bytes", i));
            }
            n += 1;
        }
    }
    Ok(n)
}
