//! verif-model: generators, reference models and the run engine. No dependency on the crate under test.
pub mod alloc;
pub mod choice;
pub mod elfw;
pub mod filegen;
pub mod inputs;
pub mod io;
pub mod refs;
pub mod run;
