//! Counting / limiting global allocator.
//!
//! Inside a per-thread *window* every allocation request is counted and the largest single request is
//! recorded. A request above `HARD_CAP` made inside a window is never passed to the system (the
//! process would abort on failure): the shim records it, raises the global `PARKED` flag and parks the
//! calling (disposable) thread forever; the runner notices and treats the case as failed.

use std::alloc::{GlobalAlloc, Layout, System};
use std::cell::Cell;
use std::sync::atomic::{AtomicU64, AtomicUsize, Ordering};

pub const HARD_CAP: usize = 1 << 30;

pub struct Shim;

thread_local! {
    static WINDOW: Cell<bool> = const { Cell::new(false) };
    static COUNT: Cell<u64> = const { Cell::new(0) };
    static MAXREQ: Cell<usize> = const { Cell::new(0) };
    static TOTAL: Cell<u64> = const { Cell::new(0) };
    static SLOT: Cell<usize> = const { Cell::new(usize::MAX) };
}

/// Number of threads parked because of an absurd request, and the size of the last such request.
pub static PARKED: AtomicU64 = AtomicU64::new(0);
pub static PARKED_SIZE: AtomicUsize = AtomicUsize::new(0);
/// worker slot of the last parked thread (usize::MAX = unknown)
pub static PARKED_SLOT: AtomicUsize = AtomicUsize::new(usize::MAX);
/// Threads parked because the system refused a request (the process would abort otherwise): inside or outside a
/// window, whoever asked. The runner reports the run as inconclusive.
pub static REFUSED: AtomicU64 = AtomicU64::new(0);
pub static REFUSED_SIZE: AtomicUsize = AtomicUsize::new(0);
pub static REFUSED_SLOT: AtomicUsize = AtomicUsize::new(usize::MAX);

#[cold]
fn refused(size: usize) -> ! {
    REFUSED_SIZE.store(size, Ordering::SeqCst);
    let slot = SLOT.try_with(|s| s.get()).unwrap_or(usize::MAX);
    REFUSED_SLOT.store(slot, Ordering::SeqCst);
    REFUSED.fetch_add(1, Ordering::SeqCst);
    loop {
        std::thread::park();
    }
}

#[inline]
fn note(size: usize) {
    let _ = WINDOW.try_with(|w| {
        if w.get() {
            let _ = COUNT.try_with(|c| c.set(c.get() + 1));
            let _ = TOTAL.try_with(|c| c.set(c.get().saturating_add(size as u64)));
            let _ = MAXREQ.try_with(|m| {
                if size > m.get() {
                    m.set(size)
                }
            });
            if size > HARD_CAP {
                PARKED_SIZE.store(size, Ordering::SeqCst);
                let slot = SLOT.try_with(|s| s.get()).unwrap_or(usize::MAX);
                PARKED_SLOT.store(slot, Ordering::SeqCst);
                PARKED.fetch_add(1, Ordering::SeqCst);
                loop {
                    std::thread::park();
                }
            }
        }
    });
}

unsafe impl GlobalAlloc for Shim {
    unsafe fn alloc(&self, layout: Layout) -> *mut u8 {
        note(layout.size());
        let p = System.alloc(layout);
        if p.is_null() {
            refused(layout.size());
        }
        p
    }
    unsafe fn alloc_zeroed(&self, layout: Layout) -> *mut u8 {
        note(layout.size());
        let p = System.alloc_zeroed(layout);
        if p.is_null() {
            refused(layout.size());
        }
        p
    }
    unsafe fn dealloc(&self, ptr: *mut u8, layout: Layout) {
        System.dealloc(ptr, layout)
    }
    unsafe fn realloc(&self, ptr: *mut u8, layout: Layout, new_size: usize) -> *mut u8 {
        note(new_size);
        let p = System.realloc(ptr, layout, new_size);
        if p.is_null() {
            refused(new_size);
        }
        p
    }
}

#[derive(Clone, Copy, Debug, Default)]
pub struct WindowStats {
    pub count: u64,
    pub max_request: usize,
    pub total: u64,
}

pub fn set_slot(slot: usize) {
    SLOT.with(|s| s.set(slot));
}

/// Open a window on this thread (resets the counters).
pub fn open() {
    COUNT.with(|c| c.set(0));
    MAXREQ.with(|c| c.set(0));
    TOTAL.with(|c| c.set(0));
    WINDOW.with(|w| w.set(true));
}

/// Close the window and return what happened inside.
pub fn close() -> WindowStats {
    WINDOW.with(|w| w.set(false));
    WindowStats {
        count: COUNT.with(|c| c.get()),
        max_request: MAXREQ.with(|c| c.get()),
        total: TOTAL.with(|c| c.get()),
    }
}

/// Temporarily suspend the window (for harness-side work that legitimately allocates).
pub fn pause() -> bool {
    WINDOW.with(|w| w.replace(false))
}
pub fn resume(prev: bool) {
    WINDOW.with(|w| w.set(prev));
}

/// Run `f` inside a window.
pub fn window<T>(f: impl FnOnce() -> T) -> (T, WindowStats) {
    open();
    let r = f();
    let s = close();
    (r, s)
}
