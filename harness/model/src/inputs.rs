//! Inputs for the byte-string properties: (a) structured rich file with overrides, (b) a linker-produced
//! sample object with field-level overrides located through the independent reader, plus byte flips,
//! splices and truncations, (c) raw bytes.
use crate::choice::Choice;
use crate::elfw::*;
use crate::filegen::{self, boundary_for, Rich, RichOpts, EHDR_FIELDS, PHDR_FIELDS, SHDR_FIELDS};
use crate::refs;
use std::sync::OnceLock;

pub fn samples() -> &'static Vec<(String, Vec<u8>)> {
    static S: OnceLock<Vec<(String, Vec<u8>)>> = OnceLock::new();
    S.get_or_init(|| {
        let dir = crate::run::verif_root().join("corpus");
        let mut v = vec![];
        if let Ok(rd) = std::fs::read_dir(&dir) {
            let mut files: Vec<_> = rd.filter_map(|e| e.ok()).map(|e| e.path()).filter(|p| p.is_file()).collect();
            files.sort();
            for p in files {
                if let Ok(b) = std::fs::read(&p) {
                    if !b.is_empty() && refs::read_ehdr(&b).is_some() {
                        v.push((p.file_name().unwrap().to_string_lossy().to_string(), b));
                    }
                }
            }
        }
        v
    })
}

#[derive(Clone, Debug)]
pub struct InputOpts {
    pub rich: RichOpts,
    /// weights of the modes (rich, sample, raw)
    pub weights: [u32; 3],
    pub max_raw: usize,
    /// samples larger than this are not used (cost control)
    pub max_sample: usize,
}

impl Default for InputOpts {
    fn default() -> Self {
        InputOpts { rich: RichOpts { override_chance: 110, corrupt_chance: 70, max_gap: 64, tables_early: false, allow_compressed: true, max_names: 8, shrink_chance: 30, many_sections: false }, weights: [60, 25, 15], max_raw: 600, max_sample: 20_000 }
    }
}

pub struct Input {
    pub data: Vec<u8>,
    pub mode: &'static str,
    pub rich: Option<Rich>,
    pub note: String,
}

/// Apply k field-level overrides / byte-level edits to a sample object.
pub fn mutate_sample(c: &mut Choice, sample: &[u8]) -> (Vec<u8>, String) {
    let mut b = sample.to_vec();
    let mut note = String::new();
    let Some((e, eh)) = refs::read_ehdr(&b) else { return (b, note) };
    let k = c.below(5);
    for _ in 0..k {
        let len = b.len();
        match c.below(8) {
            0 => {
                let fld = *c.pick(&EHDR_FIELDS[3..]);
                let mut h = refs::read_ehdr(&b).map(|x| x.1).unwrap_or(eh.clone());
                let v = boundary_for(c, len, 0);
                filegen::set_ehdr_field(&mut h, fld, v);
                let hb = enc_bytes(e, |w| h.write(w));
                if hb.len() <= b.len() {
                    b[..hb.len()].copy_from_slice(&hb);
                }
                note.push_str(&format!("{}={:#x};", fld, v));
            }
            1 | 2 if eh.e_shoff != 0 && eh.e_shnum != 0 => {
                let i = c.idx(eh.e_shnum as usize);
                let off = eh.e_shoff as usize + i * shdr_size(e);
                if let Some(mut h) = refs::read_shdr(e, &b, off) {
                    let fld = *c.pick(&SHDR_FIELDS);
                    let own = match fld {
                        "sh_offset" => h.sh_offset,
                        "sh_size" => h.sh_size,
                        "sh_link" => h.sh_link as u64,
                        "sh_info" => h.sh_info as u64,
                        "sh_entsize" => h.sh_entsize,
                        _ => 0,
                    };
                    let v = boundary_for(c, len, own);
                    filegen::set_shdr_field(&mut h, fld, v);
                    let hb = enc_bytes(e, |w| h.write(w));
                    b[off..off + hb.len()].copy_from_slice(&hb);
                    note.push_str(&format!("shdr[{}].{}={:#x};", i, fld, v));
                }
            }
            3 if eh.e_phoff != 0 && eh.e_phnum != 0 && eh.e_phnum != 0xffff => {
                let i = c.idx(eh.e_phnum as usize);
                let off = eh.e_phoff as usize + i * phdr_size(e);
                if let Some(mut h) = refs::read_phdr(e, &b, off) {
                    let fld = *c.pick(&PHDR_FIELDS);
                    let own = match fld {
                        "p_offset" => h.p_offset,
                        "p_filesz" => h.p_filesz,
                        _ => 0,
                    };
                    let v = boundary_for(c, len, own);
                    filegen::set_phdr_field(&mut h, fld, v);
                    let hb = enc_bytes(e, |w| h.write(w));
                    b[off..off + hb.len()].copy_from_slice(&hb);
                    note.push_str(&format!("phdr[{}].{}={:#x};", i, fld, v));
                }
            }
            4 if len > 0 => {
                let at = c.idx(len);
                b[at] = c.u8();
                note.push_str(&format!("byte@{};", at));
            }
            5 if len > 4 => {
                // 32-bit word inside a section body <- boundary value
                let (lo, sz) = if eh.e_shoff != 0 && eh.e_shnum != 0 {
                    let i = c.idx(eh.e_shnum as usize);
                    match refs::read_shdr(e, &b, eh.e_shoff as usize + i * shdr_size(e)) {
                        Some(h) if (h.sh_offset as usize) < len && h.sh_size > 0 && h.sh_type != SHT_NOBITS => (h.sh_offset as usize, (h.sh_size as usize).min(len - h.sh_offset as usize)),
                        _ => (0, len),
                    }
                } else {
                    (0, len)
                };
                let at = lo + (c.idx(sz.max(1)) & !3);
                let v = (boundary_for(c, sz, at as u64) as u32).to_le_bytes();
                for j in 0..4 {
                    if at + j < b.len() {
                        b[at + j] = if e.le { v[j] } else { v[3 - j] };
                    }
                }
                note.push_str(&format!("word@{};", at));
            }
            6 => {
                let nl = c.idx(len + 1);
                b.truncate(nl);
                note.push_str(&format!("truncate={};", nl));
            }
            _ if len > 8 => {
                let l = 1 + c.idx(64.min(len / 2));
                let from = c.idx(len - l);
                let to = c.idx(len - l);
                let chunk = b[from..from + l].to_vec();
                b[to..to + l].copy_from_slice(&chunk);
                note.push_str(&format!("splice {}..+{}->{};", from, l, to));
            }
            _ => {}
        }
    }
    (b, note)
}

pub fn gen_input(c: &mut Choice, o: &InputOpts) -> Input {
    let mode = c.weighted(&o.weights);
    match mode {
        0 => {
            let r = filegen::rich_file(c, &o.rich);
            Input { data: r.built.bytes.clone(), mode: "rich", note: format!("{} sections, {} segments, overrides {}, corrupted {}", r.built.shdrs.len(), r.built.phdrs.len(), r.n_overrides, r.corrupted), rich: Some(r) }
        }
        1 => {
            let all = samples();
            let usable: Vec<&(String, Vec<u8>)> = all.iter().filter(|(_, b)| b.len() <= o.max_sample).collect();
            if usable.is_empty() {
                return Input { data: vec![], mode: "raw", rich: None, note: "no samples".into() };
            }
            let (name, b) = usable[c.idx(usable.len())];
            let (data, note) = mutate_sample(c, b);
            Input { data, mode: "sample", rich: None, note: format!("{} {}", name, note) }
        }
        _ => {
            // raw: optionally a plausible ident / header prefix, then the rest of the choice sequence
            let mut data = vec![];
            match c.below(4) {
                0 => {}
                1 => data.extend_from_slice(&[0x7f, b'E', b'L', b'F', 1 + c.below(2) as u8, 1 + c.below(2) as u8, 1]),
                _ => {
                    let enc = ALL_ENC[c.below(4) as usize];
                    let mut h = Ehdr { ident: ident(enc, 0, 0), e_type: 2, e_machine: 62, e_version: 1, e_ehsize: ehdr_size(enc) as u16, e_shentsize: shdr_size(enc) as u16, e_phentsize: phdr_size(enc) as u16, ..Default::default() };
                    h.e_shoff = c.val(16);
                    h.e_phoff = c.val(16);
                    h.e_shnum = c.val(16) as u16;
                    h.e_phnum = c.val(16) as u16;
                    h.e_shstrndx = c.val(16) as u16;
                    data = enc_bytes(enc, |w| h.write(w));
                }
            }
            let l = c.below(o.max_raw as u64 + 1) as usize;
            let tail = c.take(l);
            data.extend_from_slice(tail);
            Input { data, mode: "raw", rich: None, note: String::new() }
        }
    }
}
