//! Seeded proptest runners, parallel streams, counters, shrinking, replay files, evidence JSON,
//! watchdog and parked-thread (absurd allocation) handling.

use crate::alloc;
use crate::choice::{fnv64, hex, splitmix, unhex};
use proptest::strategy::{Strategy, ValueTree};
use proptest::test_runner::{Config, RngAlgorithm, TestCaseError, TestError, TestRng, TestRunner};
use serde_json::{json, Value};
use std::cell::RefCell;
use std::collections::{BTreeMap, HashSet};
use std::panic::{catch_unwind, AssertUnwindSafe};
use std::path::{Path, PathBuf};
use std::sync::atomic::{AtomicBool, AtomicUsize, Ordering};
use std::sync::{mpsc, Arc, Mutex, OnceLock};
use std::time::{Duration, Instant};

pub const STREAMS: usize = 16;

#[derive(Clone, Copy, PartialEq, Eq, Debug)]
pub enum Tier {
    Quick,
    Thorough,
}
impl Tier {
    pub fn name(self) -> &'static str {
        match self {
            Tier::Quick => "quick",
            Tier::Thorough => "thorough",
        }
    }
}

// ------------------------------------------------------------------------------------------------
// Observation record filled by an oracle for one case
// ------------------------------------------------------------------------------------------------

#[derive(Default)]
pub struct Obs {
    pub labels: Vec<&'static str>,
    pub nontrivial: bool,
    pub key: u64,
    pub want_desc: bool,
    pub desc: Option<Value>,
    pub skip: Option<&'static str>,
    pub known_hit: Vec<String>,
    /// strict mode (replay): known findings are not tolerated silently, they are reported
    pub strict: bool,
    /// numeric counters summed into the evidence (e.g. queries made, slices checked)
    pub counters: Vec<(&'static str, u64)>,
}

impl Obs {
    #[inline]
    pub fn label(&mut self, l: &'static str) {
        if !self.labels.contains(&l) {
            self.labels.push(l);
        }
    }
    #[inline]
    pub fn label_if(&mut self, c: bool, l: &'static str) {
        if c {
            self.label(l)
        }
    }
    #[inline]
    pub fn count(&mut self, name: &'static str, n: u64) {
        for e in self.counters.iter_mut() {
            if e.0 == name {
                e.1 += n;
                return;
            }
        }
        self.counters.push((name, n));
    }
    #[inline]
    pub fn nontrivial(&mut self) {
        self.nontrivial = true;
    }
    pub fn skip(&mut self, why: &'static str) {
        self.skip = Some(why);
    }
    pub fn describe(&mut self, f: impl FnOnce() -> Value) {
        if self.want_desc && self.desc.is_none() {
            self.desc = Some(f());
        }
    }
    /// Returns Ok(()) if `sig` is a listed, unrepaired known finding (recorded, search goes on),
    /// otherwise Err(msg).
    pub fn known_or_fail(&mut self, sig: &str, msg: String) -> Result<(), String> {
        if is_open_finding(sig) {
            if !self.known_hit.iter().any(|s| s == sig) {
                self.known_hit.push(sig.to_string());
            }
            Ok(())
        } else {
            Err(format!("[{}] {}", sig, msg))
        }
    }
}

pub type OracleFn = fn(&[u8], &mut Obs) -> Result<(), String>;
pub type EnumFn = fn(usize, usize, Tier, &mut dyn FnMut(&[u8]) -> bool);

pub struct Sub {
    pub name: &'static str,
    pub oracle: OracleFn,
    /// maximum length of the choice sequence generated for this subcheck
    pub max_len: usize,
    pub quick: u64,
    pub thorough: u64,
    /// enumerated (non-random) domain: called once per shard
    pub enumerate: Option<EnumFn>,
    pub exhaustive: bool,
    pub hang_is_violation: bool,
    pub shrink_iters: u32,
    /// per-subcheck watchdog limit in seconds (None: VERIF_HANG_SECS or 60)
    pub hang_secs: Option<u64>,
}

impl Sub {
    pub const fn new(name: &'static str, oracle: OracleFn, max_len: usize, quick: u64, thorough: u64) -> Sub {
        Sub {
            name,
            oracle,
            max_len,
            quick,
            thorough,
            enumerate: None,
            exhaustive: false,
            hang_is_violation: false,
            shrink_iters: 6000,
            hang_secs: None,
        }
    }
    pub const fn enumerated(name: &'static str, oracle: OracleFn, e: EnumFn, exhaustive: bool) -> Sub {
        Sub {
            name,
            oracle,
            max_len: 0,
            quick: 0,
            thorough: 0,
            enumerate: Some(e),
            exhaustive,
            hang_is_violation: false,
            shrink_iters: 0,
            hang_secs: None,
        }
    }
    pub const fn hang_violation(mut self) -> Sub {
        self.hang_is_violation = true;
        self
    }
    pub const fn hang_secs(mut self, n: u64) -> Sub {
        self.hang_secs = Some(n);
        self
    }
    pub const fn shrink(mut self, n: u32) -> Sub {
        self.shrink_iters = n;
        self
    }
}

pub struct ExtraOutcome {
    pub name: &'static str,
    pub evaluations: u64,
    pub nontrivial: u64,
    pub samples: Vec<Value>,
    pub detail: Value,
    /// (message, replay payload)
    pub failure: Option<(String, Value)>,
    pub inconclusive: Option<String>,
}

pub struct Property {
    pub id: &'static str,
    pub level: &'static str,
    pub rule: &'static str,
    pub assumptions: &'static [&'static str],
    pub subs: Vec<Sub>,
    /// non-generated extra step (e.g. the C06 feature power set builds)
    pub extras: Vec<fn(Tier, u64) -> ExtraOutcome>,
}

// ------------------------------------------------------------------------------------------------
// Known findings
// ------------------------------------------------------------------------------------------------

#[derive(Clone, Debug)]
pub struct Finding {
    pub property: String,
    pub signature: String,
    pub status: String,
    pub what: String,
}

static FINDINGS: OnceLock<Vec<Finding>> = OnceLock::new();

pub fn verif_root() -> PathBuf {
    if let Ok(p) = std::env::var("VERIF_ROOT") {
        return PathBuf::from(p);
    }
    PathBuf::from("/verif")
}

pub fn load_findings() -> &'static Vec<Finding> {
    FINDINGS.get_or_init(|| {
        let p = verif_root().join("known_findings.json");
        let mut out = vec![];
        if let Ok(s) = std::fs::read_to_string(&p) {
            if let Ok(v) = serde_json::from_str::<Value>(&s) {
                if let Some(a) = v.get("findings").and_then(|f| f.as_array()) {
                    for f in a {
                        out.push(Finding {
                            property: f["property"].as_str().unwrap_or("").to_string(),
                            signature: f["signature"].as_str().unwrap_or("").to_string(),
                            status: f["status"].as_str().unwrap_or("").to_string(),
                            what: f["what"].as_str().unwrap_or("").to_string(),
                        });
                    }
                }
            }
        }
        out
    })
}

pub fn is_open_finding(sig: &str) -> bool {
    load_findings().iter().any(|f| f.status == "open" && f.signature == sig)
}

// ------------------------------------------------------------------------------------------------
// Panic capture
// ------------------------------------------------------------------------------------------------

thread_local! {
    static LAST_PANIC: RefCell<Option<String>> = const { RefCell::new(None) };
}

pub fn install_panic_hook() {
    std::panic::set_hook(Box::new(|info| {
        let w = alloc::pause();
        let loc = info.location().map(|l| format!("{}:{}:{}", l.file(), l.line(), l.column())).unwrap_or_default();
        let msg = if let Some(s) = info.payload().downcast_ref::<&str>() {
            s.to_string()
        } else if let Some(s) = info.payload().downcast_ref::<String>() {
            s.clone()
        } else {
            "<non-string panic payload>".to_string()
        };
        let _ = LAST_PANIC.try_with(|p| *p.borrow_mut() = Some(format!("panic '{}' at {}", msg, loc)));
        alloc::resume(w);
    }));
}

/// Run `f`, turning a panic into Err(description).
pub fn guard<T>(f: impl FnOnce() -> T) -> Result<T, String> {
    match catch_unwind(AssertUnwindSafe(f)) {
        Ok(v) => Ok(v),
        Err(_) => {
            let w = alloc::pause();
            let m = LAST_PANIC
                .try_with(|p| p.borrow_mut().take())
                .ok()
                .flatten()
                .unwrap_or_else(|| "panic (no message captured)".to_string());
            alloc::resume(w);
            Err(m)
        }
    }
}

/// Run an oracle on a case, with panic capture.
pub fn eval(oracle: OracleFn, case: &[u8], obs: &mut Obs) -> Result<(), String> {
    let _ = crate::choice::take_ran_out();
    let res = guard(|| oracle(case, obs));
    if crate::choice::take_ran_out() {
        obs.label("choice_sequence_ran_out");
    }
    match res {
        Ok(r) => r,
        Err(p) => {
            let _ = alloc::close();
            Err(format!("crate or oracle panicked: {}", p))
        }
    }
}

// ------------------------------------------------------------------------------------------------
// Stream execution
// ------------------------------------------------------------------------------------------------

#[derive(Default)]
struct StreamResult {
    stream: usize,
    evals: u64,
    skipped: BTreeMap<&'static str, u64>,
    labels: BTreeMap<&'static str, u64>,
    counters: BTreeMap<&'static str, u64>,
    nontrivial: HashSet<u64>,
    samples: Vec<Value>,
    known: Vec<String>,
    failure: Option<(Vec<u8>, String)>,
    slow: Vec<(f64, String)>,
    shrink_evals: u64,
}

struct Slot {
    started: Option<Instant>,
    case: Vec<u8>,
    stream: usize,
}

fn stream_seed(seed: u64, prop: &str, sub: &str, w: usize) -> [u8; 32] {
    let mut s = seed ^ fnv64(prop.as_bytes()).rotate_left(17) ^ fnv64(sub.as_bytes()).rotate_left(31) ^ (w as u64).wrapping_mul(0x9e37_79b9_7f4a_7c15);
    let mut out = [0u8; 32];
    for ch in out.chunks_mut(8) {
        ch.copy_from_slice(&splitmix(&mut s).to_le_bytes());
    }
    out
}

fn record(res: &mut StreamResult, case: &[u8], obs: Obs, want_samples: usize) {
    res.evals += 1;
    if let Some(s) = obs.skip {
        *res.skipped.entry(s).or_insert(0) += 1;
    }
    for l in &obs.labels {
        *res.labels.entry(l).or_insert(0) += 1;
    }
    for (n, c) in &obs.counters {
        *res.counters.entry(n).or_insert(0) += c;
    }
    for k in obs.known_hit {
        if !res.known.contains(&k) {
            res.known.push(k);
        }
    }
    if obs.nontrivial {
        let key = if obs.key != 0 { obs.key } else { fnv64(case) };
        let fresh = res.nontrivial.insert(key);
        if fresh && res.samples.len() < want_samples {
            if let Some(d) = obs.desc {
                res.samples.push(d);
            }
        }
    }
}

fn run_stream(prop: &Property, sub: &Sub, tier: Tier, seed: u64, w: usize, slot: &Mutex<Slot>) -> StreamResult {
    let mut res = StreamResult { stream: w, ..Default::default() };
    let want_samples = if w == 0 { 3 } else { 0 };
    let failed = std::cell::Cell::new(false);
    let res_cell = RefCell::new(&mut res);

    let body = |case: &[u8]| -> Result<(), String> {
        {
            let mut s = slot.lock().unwrap();
            s.started = Some(Instant::now());
            s.case.clear();
            s.case.extend_from_slice(case);
            s.stream = w;
        }
        let mut obs = Obs::default();
        let after_fail = failed.get();
        if after_fail && sub.shrink_iters > 0 && res_cell.borrow().shrink_evals >= sub.shrink_iters as u64 {
            // shrink budget used up: let every further candidate "pass" so that proptest ends quickly
            return Ok(());
        }
        {
            let r = res_cell.borrow();
            obs.want_desc = !after_fail && r.samples.len() < want_samples;
        }
        let t0 = Instant::now();
        let r = eval(sub.oracle, case, &mut obs);
        let dt = t0.elapsed().as_secs_f64();
        {
            let mut s = slot.lock().unwrap();
            s.started = None;
        }
        let mut rr = res_cell.borrow_mut();
        if after_fail {
            rr.shrink_evals += 1;
        } else {
            if dt > 5.0 && rr.slow.len() < 8 {
                rr.slow.push((dt, hex(&case[..case.len().min(64)])));
            }
            if r.is_ok() {
                record(&mut rr, case, obs, want_samples);
            } else {
                rr.evals += 1;
                failed.set(true);
            }
        }
        r
    };

    if let Some(en) = sub.enumerate {
        let mut fail: Option<(Vec<u8>, String)> = None;
        en(w, STREAMS, tier, &mut |case: &[u8]| {
            if fail.is_some() {
                return false;
            }
            match body(case) {
                Ok(()) => true,
                Err(m) => {
                    fail = Some((case.to_vec(), m));
                    false
                }
            }
        });
        let _ = body;
        res.failure = fail;
        return res;
    }

    let total = match tier {
        Tier::Quick => sub.quick,
        Tier::Thorough => sub.thorough,
    };
    // VERIF_SCALE (a factor, e.g. 0.01) scales the case counts; for trying things out, not for registered commands
    let total = match std::env::var("VERIF_SCALE").ok().and_then(|v| v.parse::<f64>().ok()) {
        Some(f) if f > 0.0 => ((total as f64 * f) as u64).max(STREAMS as u64),
        _ => total,
    };
    let per = total / STREAMS as u64 + if (w as u64) < total % STREAMS as u64 { 1 } else { 0 };
    if per == 0 {
        let _ = body;
        return res;
    }
    let mut cfg = Config::default();
    cfg.cases = per as u32;
    cfg.failure_persistence = None;
    cfg.max_shrink_iters = u32::MAX;
    cfg.max_shrink_time = 0;
    cfg.verbose = 0;
    cfg.source_file = None;
    cfg.max_global_rejects = 0;
    let rng = TestRng::from_seed(RngAlgorithm::ChaCha, &stream_seed(seed, prop.id, sub.name, w));
    let mut runner = TestRunner::new_with_rng(cfg, rng);
    let strat = proptest::collection::vec(proptest::arbitrary::any::<u8>(), 0..=sub.max_len);
    let out = runner.run(&strat, |case| body(&case).map_err(TestCaseError::fail));
    let _ = body;
    match out {
        Ok(()) => {}
        Err(TestError::Fail(reason, minimal)) => {
            // re-evaluate the minimal case to obtain the message that belongs to it
            let mut obs = Obs::default();
            let msg = match eval(sub.oracle, &minimal, &mut obs) {
                Err(m) => m,
                Ok(()) => format!("(not reproduced on re-evaluation) {}", reason.message()),
            };
            res.failure = Some((minimal, msg));
        }
        Err(TestError::Abort(reason)) => {
            res.failure = None;
            res.skipped.insert("proptest_abort", 1);
            eprintln!("proptest aborted stream {}: {}", w, reason.message());
        }
    }
    res
}

// ------------------------------------------------------------------------------------------------
// Isolated evaluation (disposable threads) and greedy reduction for hangs / parked threads
// ------------------------------------------------------------------------------------------------

#[derive(Debug, Clone)]
pub enum Iso {
    Pass,
    Fail(String),
    Stuck,
}

pub fn eval_isolated(oracle: OracleFn, case: &[u8], limit: Duration) -> Iso {
    let (tx, rx) = mpsc::channel();
    let c = case.to_vec();
    let parked_before = alloc::PARKED.load(Ordering::SeqCst);
    let refused_before = alloc::REFUSED.load(Ordering::SeqCst);
    let _ = std::thread::Builder::new().stack_size(16 << 20).spawn(move || {
        let mut obs = Obs::default();
        let r = eval(oracle, &c, &mut obs);
        let _ = tx.send(r);
    });
    let t0 = Instant::now();
    loop {
        match rx.recv_timeout(Duration::from_millis(20)) {
            Ok(Ok(())) => return Iso::Pass,
            Ok(Err(m)) => return Iso::Fail(m),
            Err(mpsc::RecvTimeoutError::Timeout) => {
                if alloc::PARKED.load(Ordering::SeqCst) > parked_before || alloc::REFUSED.load(Ordering::SeqCst) > refused_before {
                    return Iso::Stuck;
                }
                if t0.elapsed() > limit {
                    return Iso::Stuck;
                }
            }
            Err(mpsc::RecvTimeoutError::Disconnected) => return Iso::Stuck,
        }
    }
}

/// Bounded greedy reduction of a case that makes the oracle hang or park (each candidate on its own
/// disposable thread).
fn reduce_stuck(oracle: OracleFn, case: &[u8], limit: Duration, max_candidates: usize) -> Vec<u8> {
    let mut cur = case.to_vec();
    let mut tried = 0;
    let mut chunk = cur.len() / 2;
    while chunk >= 1 && tried < max_candidates {
        let mut progressed = false;
        let mut i = 0;
        while i + chunk <= cur.len() && tried < max_candidates {
            let mut cand = cur.clone();
            cand.drain(i..i + chunk);
            tried += 1;
            if matches!(eval_isolated(oracle, &cand, limit), Iso::Stuck) {
                cur = cand;
                progressed = true;
            } else {
                i += chunk;
            }
        }
        if !progressed {
            chunk /= 2;
        }
    }
    cur
}

// ------------------------------------------------------------------------------------------------
// Replay files
// ------------------------------------------------------------------------------------------------

pub fn write_case_file(dir: &Path, prop: &str, sub: &str, case: &[u8], msg: &str, decoded: Option<Value>) -> PathBuf {
    let _ = std::fs::create_dir_all(dir);
    let name = format!("{}-{:016x}.case", sub, fnv64(case));
    let p = dir.join(name);
    let v = json!({
        "property": prop,
        "subcheck": sub,
        "case_hex": hex(case),
        "message": msg,
        "decoded": decoded,
    });
    let _ = std::fs::write(&p, serde_json::to_string_pretty(&v).unwrap());
    p
}

pub struct CaseFile {
    pub property: String,
    pub subcheck: String,
    pub case: Vec<u8>,
    pub extra: Option<Value>,
}

pub fn read_case_file(p: &Path) -> Result<CaseFile, String> {
    let s = std::fs::read_to_string(p).map_err(|e| format!("cannot read {}: {}", p.display(), e))?;
    let v: Value = serde_json::from_str(&s).map_err(|e| format!("bad json in {}: {}", p.display(), e))?;
    Ok(CaseFile {
        property: v["property"].as_str().unwrap_or("").to_string(),
        subcheck: v["subcheck"].as_str().unwrap_or("").to_string(),
        case: unhex(v["case_hex"].as_str().unwrap_or("")).ok_or("bad case_hex")?,
        extra: v.get("extra").cloned(),
    })
}

/// Replay one case file against its oracle. Returns Ok(description) or Err(message).
pub fn replay(prop: &Property, cf: &CaseFile, verbose: bool) -> Result<(), String> {
    let sub = match prop.subs.iter().find(|s| s.name == cf.subcheck) {
        Some(s) => s,
        None => {
            // a failure of the non-generated extra step: re-run that step
            for extra in &prop.extras {
                let e = extra(Tier::Quick, 0);
                if e.name == cf.subcheck {
                    return match e.failure {
                        Some((m, _)) => Err(m),
                        None => Ok(()),
                    };
                }
            }
            return Err(format!("unknown subcheck {} for {}", cf.subcheck, prop.id));
        }
    };
    let mut obs = Obs::default();
    obs.want_desc = true;
    obs.strict = true;
    let limit = Duration::from_secs(90);
    // run on a disposable thread so that a hang or an absurd allocation is reported, not suffered
    let r = if sub.hang_is_violation {
        match eval_isolated(sub.oracle, &cf.case, limit) {
            Iso::Pass => Ok(()),
            Iso::Fail(m) => Err(m),
            Iso::Stuck => Err("query did not return (hang or absurd allocation request)".to_string()),
        }
    } else {
        eval(sub.oracle, &cf.case, &mut obs)
    };
    if verbose {
        if let Some(d) = &obs.desc {
            println!("decoded case: {}", serde_json::to_string(d).unwrap_or_default());
        }
        for k in &obs.known_hit {
            println!("KNOWN-FINDING: property={} {}", prop.id, k);
        }
    }
    r
}

// ------------------------------------------------------------------------------------------------
// Property execution
// ------------------------------------------------------------------------------------------------

pub struct RunOutcome {
    pub violations: Vec<(String, PathBuf, String)>,
    pub inconclusive: Option<String>,
    pub evaluations: u64,
}

pub fn hang_limit() -> Duration {
    let s = std::env::var("VERIF_HANG_SECS").ok().and_then(|v| v.parse().ok()).unwrap_or(60u64);
    Duration::from_secs(s)
}

pub fn run_property(prop: &Property, tier: Tier, seed: u64) -> RunOutcome {
    let t_start = Instant::now();
    let root = verif_root();
    let out_dir = root.join("out").join(prop.id);
    let mut violations: Vec<(String, PathBuf, String)> = vec![];
    let mut inconclusive: Option<String> = None;
    let mut known_printed: HashSet<String> = HashSet::new();

    // 1. regression replays (the seconds-long replay tier)
    let mut regress_replayed = 0u64;
    let rdir = root.join("regress").join(prop.id);
    if let Ok(rd) = std::fs::read_dir(&rdir) {
        let mut files: Vec<PathBuf> = rd.filter_map(|e| e.ok()).map(|e| e.path()).filter(|p| p.extension().map(|x| x == "case").unwrap_or(false)).collect();
        files.sort();
        for f in files {
            match read_case_file(&f) {
                Ok(cf) => {
                    regress_replayed += 1;
                    if let Err(m) = replay(prop, &cf, false) {
                        println!("VIOLATION property={} replay={}", prop.id, f.display());
                        println!("  regression case failed again: {}", m);
                        violations.push((cf.subcheck.clone(), f.clone(), m));
                    }
                }
                Err(e) => eprintln!("warning: {}", e),
            }
        }
    }

    let nworkers = std::thread::available_parallelism().map(|n| n.get()).unwrap_or(4).min(STREAMS).max(1);
    let mut sub_reports: Vec<Value> = vec![];
    let mut total_evals = 0u64;
    let mut total_nontrivial = 0u64;
    let mut all_samples: Vec<Value> = vec![];
    let mut all_labels: BTreeMap<String, u64> = BTreeMap::new();
    let mut all_counters: BTreeMap<String, u64> = BTreeMap::new();
    let mut all_skipped: BTreeMap<String, u64> = BTreeMap::new();
    let mut excluded_known = 0u64;
    let mut any_exhaustive = false;
    let mut all_exhaustive = true;
    let mut slow_cases: Vec<Value> = vec![];
    let mut skipped_after_hang = false;

    for sub in &prop.subs {
        if sub.exhaustive {
            any_exhaustive = true;
        } else {
            all_exhaustive = false;
        }
        let t_sub = Instant::now();
        let next = Arc::new(AtomicUsize::new(0));
        let slots: Arc<Vec<Mutex<Slot>>> = Arc::new((0..nworkers * 4).map(|_| Mutex::new(Slot { started: None, case: vec![], stream: usize::MAX })).collect());
        let (tx, rx) = mpsc::channel::<StreamResult>();
        let stop = Arc::new(AtomicBool::new(false));
        let next_slot = AtomicUsize::new(0);

        // `prop` and `sub` live for the whole program (statics built in main); extend lifetimes for threads.
        let prop_ptr: &'static Property = unsafe { &*(prop as *const Property) };
        let sub_ptr: &'static Sub = unsafe { &*(sub as *const Sub) };

        let spawn_worker = |slot_idx: usize| {
            let next = next.clone();
            let slots = slots.clone();
            let tx = tx.clone();
            let stop = stop.clone();
            std::thread::Builder::new()
                .stack_size(32 << 20)
                .spawn(move || {
                    alloc::set_slot(slot_idx);
                    loop {
                        if stop.load(Ordering::SeqCst) {
                            break;
                        }
                        let w = next.fetch_add(1, Ordering::SeqCst);
                        if w >= STREAMS {
                            break;
                        }
                        let r = run_stream(prop_ptr, sub_ptr, tier, seed, w, &slots[slot_idx]);
                        if tx.send(r).is_err() {
                            break;
                        }
                    }
                })
                .expect("spawn worker");
        };
        for _ in 0..nworkers {
            let i = next_slot.fetch_add(1, Ordering::SeqCst);
            spawn_worker(i);
        }

        let mut results: Vec<StreamResult> = vec![];
        let mut lost: HashSet<usize> = HashSet::new();
        let mut parked_seen = alloc::PARKED.load(Ordering::SeqCst);
        let mut refused_seen = alloc::REFUSED.load(Ordering::SeqCst);
        let mut hang_abort = false;
        let mut park_abort = false;
        let limit = match (std::env::var("VERIF_HANG_SECS").ok().and_then(|v| v.parse::<u64>().ok()), sub.hang_secs) {
            (Some(v), _) => Duration::from_secs(v),
            (None, Some(v)) => Duration::from_secs(v),
            _ => hang_limit(),
        };
        while results.len() + lost.len() < STREAMS {
            match rx.recv_timeout(Duration::from_millis(200)) {
                Ok(r) => results.push(r),
                Err(mpsc::RecvTimeoutError::Timeout) => {}
                Err(mpsc::RecvTimeoutError::Disconnected) => break,
            }
            // parked worker (absurd allocation)?
            let p = alloc::PARKED.load(Ordering::SeqCst);
            if p > parked_seen {
                parked_seen = p;
                let si = alloc::PARKED_SLOT.load(Ordering::SeqCst);
                if si < slots.len() {
                    let (case, stream) = {
                        let s = slots[si].lock().unwrap();
                        (s.case.clone(), s.stream)
                    };
                    if stream < STREAMS && lost.insert(stream) {
                        let size = alloc::PARKED_SIZE.load(Ordering::SeqCst);
                        stop.store(true, Ordering::SeqCst);
                        let small = reduce_stuck(sub.oracle, &case, Duration::from_secs(3), 10);
                        let mut r = StreamResult { stream, ..Default::default() };
                        r.evals = 1;
                        r.failure = Some((small, format!("a single allocation of {} bytes was requested (above the hard cap of {} bytes); the requesting thread was parked", size, alloc::HARD_CAP)));
                        results.push(r);
                        lost.remove(&stream);
                        lost.insert(stream + 1000); // placeholder so the count stays consistent
                        lost.remove(&(stream + 1000));
                        {
                            let mut s = slots[si].lock().unwrap();
                            s.started = None;
                            s.stream = usize::MAX;
                        }
                        park_abort = true;
                    }
                }
            }
            if park_abort {
                break;
            }
            // a request the system refused (the thread is parked instead of aborting the process): not a verdict
            let rf = alloc::REFUSED.load(Ordering::SeqCst);
            if rf > refused_seen {
                refused_seen = rf;
                let si = alloc::REFUSED_SLOT.load(Ordering::SeqCst);
                let size = alloc::REFUSED_SIZE.load(Ordering::SeqCst);
                let saved = if si < slots.len() {
                    let mut s = slots[si].lock().unwrap();
                    let p = write_case_file(&out_dir, prop.id, sub.name, &s.case, "the system refused an allocation (inconclusive)", None);
                    if s.stream < STREAMS {
                        lost.insert(s.stream);
                    }
                    s.started = None;
                    s.stream = usize::MAX;
                    format!("{}", p.display())
                } else {
                    "<unknown case>".to_string()
                };
                inconclusive = Some(format!("subcheck {}: the system refused an allocation of {} bytes outside any allocation window (case saved at {}); the requesting thread was parked", sub.name, size, saved));
                stop.store(true, Ordering::SeqCst);
                break;
            }
            // hung worker?
            for si in 0..slots.len() {
                if hang_abort {
                    break;
                }
                let hung = {
                    let s = slots[si].lock().unwrap();
                    match s.started {
                        Some(t) if t.elapsed() > limit && s.stream < STREAMS => Some((s.case.clone(), s.stream)),
                        _ => None,
                    }
                };
                if let Some((case, stream)) = hung {
                    {
                        let mut s = slots[si].lock().unwrap();
                        s.started = None;
                        s.stream = usize::MAX;
                    }
                    if sub.hang_is_violation {
                        // one hang is enough: stop this subcheck (the other streams would hang too and the
                        // abandoned spinners keep their cores), minimise once, skip what is left of the run
                        stop.store(true, Ordering::SeqCst);
                        let small = reduce_stuck(sub.oracle, &case, Duration::from_secs(3), 10);
                        let mut r = StreamResult { stream, ..Default::default() };
                        r.evals = 1;
                        r.failure = Some((small, format!("a single case did not finish within {} s (hang)", limit.as_secs())));
                        results.push(r);
                        hang_abort = true;
                    } else {
                        let p = write_case_file(&out_dir, prop.id, sub.name, &case, "stalled case (inconclusive)", None);
                        inconclusive = Some(format!("subcheck {} stalled for more than {} s on the case saved at {}", sub.name, limit.as_secs(), p.display()));
                        stop.store(true, Ordering::SeqCst);
                        lost.insert(stream);
                    }
                }
            }
            if inconclusive.is_some() || hang_abort {
                break;
            }
        }
        stop.store(true, Ordering::SeqCst);
        drop(tx);

        results.sort_by_key(|r| r.stream);
        let mut evals = 0u64;
        let mut nontriv: HashSet<u64> = HashSet::new();
        let mut labels: BTreeMap<&'static str, u64> = BTreeMap::new();
        let mut counters: BTreeMap<&'static str, u64> = BTreeMap::new();
        let mut skipped: BTreeMap<&'static str, u64> = BTreeMap::new();
        let mut samples: Vec<Value> = vec![];
        let mut shrink_evals = 0;
        let mut first_fail: Option<(usize, Vec<u8>, String)> = None;
        for r in results {
            evals += r.evals;
            shrink_evals += r.shrink_evals;
            nontriv.extend(r.nontrivial.iter());
            for (k, v) in r.labels {
                *labels.entry(k).or_insert(0) += v;
            }
            for (k, v) in r.counters {
                *counters.entry(k).or_insert(0) += v;
            }
            for (k, v) in r.skipped {
                *skipped.entry(k).or_insert(0) += v;
            }
            for s in r.samples {
                if samples.len() < 3 {
                    samples.push(s);
                }
            }
            for k in r.known {
                if known_printed.insert(k.clone()) {
                    let what = load_findings().iter().find(|f| f.signature == k).map(|f| f.what.clone()).unwrap_or_default();
                    println!("KNOWN-FINDING: property={} {} {}", prop.id, k, what);
                }
                excluded_known += 1;
            }
            for (dt, h) in r.slow {
                slow_cases.push(json!({"subcheck": sub.name, "seconds": dt, "case_prefix_hex": h}));
            }
            if let Some((case, msg)) = r.failure {
                if first_fail.is_none() {
                    first_fail = Some((r.stream, case, msg));
                }
            }
        }
        if let Some((stream, case, msg)) = first_fail {
            // decoded description of the minimal case (best effort, on a disposable thread)
            let decoded = {
                let c = case.clone();
                let o = sub.oracle;
                let (txd, rxd) = mpsc::channel();
                let _ = std::thread::Builder::new().spawn(move || {
                    let mut obs = Obs::default();
                    obs.want_desc = true;
                    let _ = eval(o, &c, &mut obs);
                    let _ = txd.send(obs.desc);
                });
                rxd.recv_timeout(Duration::from_secs(5)).ok().flatten()
            };
            let p = write_case_file(&out_dir, prop.id, sub.name, &case, &msg, decoded);
            println!("VIOLATION property={} replay={}", prop.id, p.display());
            println!("  subcheck={} stream={} case_len={} : {}", sub.name, stream, case.len(), msg);
            violations.push((sub.name.to_string(), p, msg));
        }
        total_evals += evals;
        total_nontrivial += nontriv.len() as u64;
        for s in &samples {
            if all_samples.len() < 8 {
                all_samples.push(json!({"subcheck": sub.name, "case": s}));
            }
        }
        for (k, v) in &labels {
            *all_labels.entry(format!("{}.{}", sub.name, k)).or_insert(0) += v;
        }
        for (k, v) in &counters {
            *all_counters.entry(format!("{}.{}", sub.name, k)).or_insert(0) += v;
        }
        for (k, v) in &skipped {
            *all_skipped.entry(format!("{}.{}", sub.name, k)).or_insert(0) += v;
        }
        sub_reports.push(json!({
            "subcheck": sub.name,
            "evaluations": evals,
            "distinct_nontrivial": nontriv.len(),
            "enumerated": sub.enumerate.is_some(),
            "exhaustive": sub.exhaustive,
            "shrink_evaluations": shrink_evals,
            "wall_s": t_sub.elapsed().as_secs_f64(),
        }));
        if inconclusive.is_some() {
            break;
        }
        if hang_abort {
            skipped_after_hang = true;
            break;
        }
    }

    // extra (non-generated) step
    if inconclusive.is_none() && !skipped_after_hang {
        for extra in &prop.extras {
            let e = extra(tier, seed);
            if e.evaluations == 0 && e.failure.is_none() && e.inconclusive.is_none() {
                // the step does not apply to this tier
                sub_reports.push(json!({"subcheck": e.name, "evaluations": 0, "detail": e.detail}));
                continue;
            }
            total_evals += e.evaluations;
            total_nontrivial += e.nontrivial;
            for s in e.samples {
                if all_samples.len() < 12 {
                    all_samples.push(json!({"subcheck": e.name, "case": s}));
                }
            }
            sub_reports.push(json!({"subcheck": e.name, "evaluations": e.evaluations, "distinct_nontrivial": e.nontrivial, "detail": e.detail}));
            if let Some((msg, payload)) = e.failure {
                let _ = std::fs::create_dir_all(&out_dir);
                let p = match payload.get("replay_file").and_then(|x| x.as_str()) {
                    Some(f) => PathBuf::from(f),
                    None => {
                        let p = out_dir.join(format!("{}.case", e.name));
                        let v = json!({"property": prop.id, "subcheck": e.name, "case_hex": "", "message": msg, "extra": payload});
                        let _ = std::fs::write(&p, serde_json::to_string_pretty(&v).unwrap());
                        p
                    }
                };
                println!("VIOLATION property={} replay={}", prop.id, p.display());
                println!("  subcheck={} : {}", e.name, msg);
                violations.push((e.name.to_string(), p, msg));
            }
            if let Some(m) = e.inconclusive {
                inconclusive = Some(m);
            }
        }
    }

    // evidence
    let health: Vec<Value> = all_labels
        .iter()
        .map(|(k, v)| json!({"label": k, "count": v, "share": if total_evals > 0 { *v as f64 / total_evals as f64 } else { 0.0 }}))
        .collect();
    let ev = json!({
        "property_id": prop.id,
        "tier": tier.name(),
        "seed": seed,
        "level": prop.level,
        "coverage": {
            "evaluations": total_evals,
            "distinct_nontrivial": total_nontrivial,
            "rule": prop.rule,
            "samples": all_samples,
            "exhaustive": any_exhaustive && all_exhaustive,
            "exhaustive_subdomains": prop.subs.iter().filter(|s| s.exhaustive).map(|s| s.name).collect::<Vec<_>>(),
            "subchecks": sub_reports,
            "health": health,
            "counters": all_counters,
            "skipped_or_excluded": all_skipped,
            "excluded_known": excluded_known,
            "regress_replayed": regress_replayed,
            "streams": STREAMS,
            "workers": nworkers,
            "slow_cases": slow_cases,
            "inconclusive": inconclusive,
            "remaining_subchecks_skipped_after_hang": skipped_after_hang,
        },
        "assumptions": prop.assumptions,
        "wall_s": t_start.elapsed().as_secs_f64(),
        "violations": violations.len(),
    });
    let edir = root.join("evidence");
    let _ = std::fs::create_dir_all(&edir);
    let epath = edir.join(format!("{}.json", prop.id));
    let _ = std::fs::write(&epath, serde_json::to_string_pretty(&ev).unwrap());

    RunOutcome { violations, inconclusive, evaluations: total_evals }
}

/// Shrink a failing case found by an external driver (libFuzzer) with proptest's byte shrinker.
pub fn shrink_external(oracle: OracleFn, case: &[u8], iters: u32) -> Vec<u8> {
    // Build a value tree for exactly this vector by using a strategy of fixed elements.
    let strat: Vec<_> = case.iter().map(|b| (0u8..=*b).prop_map(|x| x)).collect();
    let _ = strat;
    // Simple greedy reduction: remove chunks, then lower bytes.
    let fails = |c: &[u8]| -> bool {
        let mut obs = Obs::default();
        eval(oracle, c, &mut obs).is_err()
    };
    let mut cur = case.to_vec();
    if !fails(&cur) {
        return cur;
    }
    let mut budget = iters as i64;
    let mut chunk = (cur.len() / 2).max(1);
    while chunk >= 1 && budget > 0 {
        let mut i = 0;
        let mut progressed = false;
        while i + chunk <= cur.len() && budget > 0 {
            let mut cand = cur.clone();
            cand.drain(i..i + chunk);
            budget -= 1;
            if fails(&cand) {
                cur = cand;
                progressed = true;
            } else {
                i += chunk;
            }
        }
        if !progressed {
            if chunk == 1 {
                break;
            }
            chunk /= 2;
        }
    }
    let mut i = 0;
    while i < cur.len() && budget > 0 {
        if cur[i] != 0 {
            let mut cand = cur.clone();
            cand[i] = 0;
            budget -= 1;
            if fails(&cand) {
                cur = cand;
            }
        }
        i += 1;
    }
    cur
}

#[allow(dead_code)]
fn _unused(_: &dyn ValueTree<Value = u8>) {}
