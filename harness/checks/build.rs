//! Extracts every `pub const NAME: <int type> = ...;` of /repo/src/abi.rs so that C19 compares all of them.
use std::io::Write;
fn main() {
    let src_path = std::env::var("VERIF_REPO").unwrap_or_else(|_| "/repo".to_string()) + "/src/abi.rs";
    println!("cargo:rerun-if-changed={}", src_path);
    println!("cargo:rerun-if-env-changed=VERIF_REPO");
    let src = std::fs::read_to_string(&src_path).expect("read abi.rs");
    let out = std::path::PathBuf::from(std::env::var("OUT_DIR").unwrap()).join("abi_consts.rs");
    let mut f = std::fs::File::create(out).unwrap();
    writeln!(f, "pub const INT_CONSTS: &[(&str, i128, &str)] = &[").unwrap();
    let mut other = vec![];
    for line in src.lines() {
        let l = line.trim_start();
        if !line.starts_with("pub const ") {
            continue;
        }
        let rest = &l["pub const ".len()..];
        let Some(colon) = rest.find(':') else { continue };
        let name = rest[..colon].trim();
        let Some(eq) = rest.find('=') else { continue };
        let ty = rest[colon + 1..eq].trim();
        match ty {
            "u8" | "u16" | "u32" | "u64" | "i8" | "i16" | "i32" | "i64" | "usize" | "isize" => {
                writeln!(f, "    (\"{}\", elf::abi::{} as i128, \"{}\"),", name, name, ty).unwrap();
            }
            _ => other.push((name.to_string(), ty.to_string())),
        }
    }
    writeln!(f, "];").unwrap();
    writeln!(f, "pub const OTHER_CONSTS: &[(&str, &str)] = &[").unwrap();
    for (n, t) in other {
        writeln!(f, "    (\"{}\", \"{}\"),", n, t).unwrap();
    }
    writeln!(f, "];").unwrap();
}
