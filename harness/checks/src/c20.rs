//! C20 — alternative access paths to the same data agree.
use crate::common::*;
use crate::conv;
use crate::with_endian;
use elf::hash::{GnuHashTable, SysVHashTable};
use elf::note::Note;
use elf::section::SectionHeader;
use elf::string_table::StringTable;
use elf::symbol::SymbolTable;
use verif_model::elfw as m;
use verif_model::filegen::{self, FileSpec, Override, Seg, Target};
use verif_model::refs;

struct Obj {
    enc: Enc,
    b: filegen::Built,
    names: Vec<Vec<u8>>,
    sec_names: Vec<Vec<u8>>,
    rels: Vec<(usize, Vec<m::Rel>)>,
    relas: Vec<(usize, Vec<m::Rela>)>,
    dyns: Vec<m::Dyn>,
    kinds_present: u32,
    has_pt_dynamic: bool,
}

fn gen_obj(c: &mut Choice) -> Obj {
    let enc = ALL_ENC[c.below(4) as usize];
    let mut f = FileSpec::new(enc);
    let word = if enc.c64 { 8 } else { 4 };
    // dynamic symbol names
    let n = 1 + c.below(7) as usize;
    let mut names: Vec<Vec<u8>> = vec![vec![]];
    for i in 0..n {
        names.push(match c.below(5) {
            0 if names.len() > 1 => names[1].clone(),
            1 => vec![0xc3, 0x28, b'a' + i as u8],
            _ => vec![b'f', b'a' + i as u8, b'0' + c.below(10) as u8],
        });
    }
    let nbucket = 1 + c.below(4) as u32;
    let mut hashed: Vec<Vec<u8>> = names[1..].to_vec();
    refs::gnu_sort(&mut hashed, nbucket);
    names.truncate(1);
    names.extend(hashed.iter().cloned());
    let dyntab = refs::build_symtab(enc, &names, c.u16() as u64, c.bool());
    let symnames: Vec<Vec<u8>> = (0..1 + c.below(5)).map(|i| if i == 0 { vec![] } else { vec![b'l', b'0' + i as u8] }).collect();
    let symtab = refs::build_symtab(enc, &symnames, c.u16() as u64, false);
    let mask = c.u16();
    let has = |b: u32| mask & (1 << b) != 0;
    // the section list: (name, type, body, kind tag)
    struct S {
        name: Vec<u8>,
        ty: u32,
        body: Vec<u8>,
        tag: u8,
        align: u64,
    }
    let mut secs: Vec<S> = vec![];
    let name_pool: Vec<Vec<u8>> = vec![b".text".to_vec(), b".tex".to_vec(), b".text.hot".to_vec(), b"text".to_vec(), b".data".to_vec(), b".data".to_vec(), b"".to_vec(), vec![b'.', 0xff, 0xfe], b".note".to_vec(), b".note.gnu".to_vec(), b".dynsym".to_vec(), b"x".to_vec(), b".data\x01".to_vec(), b".text\x01\x01".to_vec(), b"\x01".to_vec(), b".data\x7f".to_vec(), b".tex\xc2\x80".to_vec(), b".a_name_longer_than_sixteen_bytes".to_vec(), b".a_name_longer_than_sixteen_bytes\x01".to_vec()];
    let mut pick_name = |c: &mut Choice, default: &[u8]| -> Vec<u8> {
        if c.chance(90) {
            name_pool[c.idx(name_pool.len())].clone()
        } else {
            default.to_vec()
        }
    };
    let mut rels_m = vec![];
    let mut relas_m = vec![];
    let mut dyns_m = vec![];
    // per filler section (by tag): sh_flags and sh_entsize, which mean nothing to the typed views (SHF_COMPRESSED does:
    // the views are views over section_data, i.e. over what follows the compression header)
    let mut extra_hdr: std::collections::HashMap<u8, (u64, u64)> = std::collections::HashMap::new();
    let chdr = |c: &mut Choice| -> Vec<u8> { m::enc_bytes(enc, |w| m::Chdr { ch_type: 1 + c.below(2) as u32, ch_reserved: 0, ch_size: c.val(32), ch_addralign: 1 }.write(w)) };
    if has(0) {
        secs.push(S { name: pick_name(c, b".symtab"), ty: m::SHT_SYMTAB, body: symtab.symtab.clone(), tag: 1, align: word });
        secs.push(S { name: pick_name(c, b".strtab"), ty: m::SHT_STRTAB, body: symtab.strtab.clone(), tag: 2, align: 1 });
    }
    if has(1) {
        secs.push(S { name: pick_name(c, b".dynsym"), ty: m::SHT_DYNSYM, body: dyntab.symtab.clone(), tag: 3, align: word });
        secs.push(S { name: pick_name(c, b".dynstr"), ty: m::SHT_STRTAB, body: dyntab.strtab.clone(), tag: 4, align: 1 });
    }
    // a stripped-style object: no .dynsym SECTION, but a dynamic table whose DT_SYMTAB/DT_STRTAB/DT_STRSZ/DT_SYMENT/DT_HASH
    // describe a symbol table inside an identity-mapped PT_LOAD (values patched in after the layout is known). Nothing in
    // the crate follows those tags today; if something ever does, the access paths must still agree.
    let dt_sym = has(2) && has(0) && !has(1) && c.u8() >= 150;
    if has(2) {
        let w = {
            let mut w = m::W::new(enc);
            if dt_sym {
                for t in [6i64, 5, 10, 11, 4] {
                    let d = m::Dyn { d_tag: t, d_un: 0 };
                    d.write(&mut w);
                    dyns_m.push(d);
                }
            }
            for _ in 0..1 + c.below(5) {
                let d = m::Dyn { d_tag: if c.chance(40) { c.val(64) as i64 } else { *c.pick(&[1i64, 5, 6, 0x6ffffef5, -2, 0, 16, 22, 24, 30, 0x6ffffffb, 0x7fffffff]) }, d_un: c.val(64) };
                d.write(&mut w);
                dyns_m.push(d);
            }
            // (the terminating DT_NULL entry usually carries 0, but nothing says so)
            let d = m::Dyn { d_tag: 0, d_un: if c.chance(200) { 0 } else { c.val(64) } };
            d.write(&mut w);
            dyns_m.push(d);
            w.buf
        };
        secs.push(S { name: pick_name(c, b".dynamic"), ty: m::SHT_DYNAMIC, body: w, tag: 5, align: word });
    }
    if has(3) {
        let mode = c.bool();
        secs.push(S { name: pick_name(c, b".hash"), ty: m::SHT_HASH, body: refs::build_sysv_hash(enc, &names, 1 + c.below(4) as u32, &|_| mode), tag: 6, align: 4 });
    }
    if has(4) {
        let p = refs::GnuParams { nbucket, nbloom: 1 << c.below(3), shift: c.below(32) as u32, symoffset: 1 };
        secs.push(S { name: pick_name(c, b".gnu.hash"), ty: m::SHT_GNU_HASH, body: refs::build_gnu_hash(enc, &hashed, &p), tag: 7, align: word });
    }
    // filler sections of other types (typed-view material)
    let nfill = 1 + c.below(5);
    for k in 0..nfill {
        match c.below(6) {
            0 => {
                let mut w = m::W::new(enc);
                let mut v = vec![];
                for _ in 0..c.below(4) {
                    let r = m::Rel { r_offset: c.val(64), r_info: c.val(64) };
                    r.write(&mut w);
                    v.push(r);
                }
                rels_m.push((100 + k as usize, v));
                // (a fifth: the section ends in a partial entry, which no access path may hand out)
                if c.u8() >= 205 {
                    let t = 1 + c.below(m::rel_size(enc) as u64 - 1) as usize;
                    w.buf.extend(std::iter::repeat(0xE7).take(t));
                }
                let comp = c.u8() >= 224;
                let body = if comp { let mut b = chdr(c); b.extend_from_slice(&w.buf); b } else { w.buf };
                extra_hdr.insert(100 + k as u8, (if comp { 0x800 } else { *c.pick(&[0u64, 0x2, 0x40, 0x42, 0x20]) }, if c.bool() { m::rel_size(enc) as u64 } else { c.val(16) }));
                secs.push(S { name: pick_name(c, b".rel.a"), ty: m::SHT_REL, body, tag: 100 + k as u8, align: word });
            }
            1 => {
                let mut w = m::W::new(enc);
                let mut v = vec![];
                for _ in 0..c.below(4) {
                    let r = m::Rela { r_offset: c.val(64), r_info: c.val(64), r_addend: c.val(64) as i64 };
                    r.write(&mut w);
                    v.push(r);
                }
                relas_m.push((100 + k as usize, v));
                if c.u8() >= 205 {
                    let t = 1 + c.below(m::rela_size(enc) as u64 - 1) as usize;
                    w.buf.extend(std::iter::repeat(0xE7).take(t));
                }
                let comp = c.u8() >= 224;
                let body = if comp { let mut b = chdr(c); b.extend_from_slice(&w.buf); b } else { w.buf };
                extra_hdr.insert(100 + k as u8, (if comp { 0x800 } else { *c.pick(&[0u64, 0x2, 0x40, 0x42, 0x20]) }, if c.bool() { m::rela_size(enc) as u64 } else { c.val(16) }));
                secs.push(S { name: pick_name(c, b".rela.a"), ty: m::SHT_RELA, body, tag: 100 + k as u8, align: word });
            }
            2 => {
                let mut w = m::W::new(enc);
                for _ in 0..1 + c.below(3) {
                    let (nl, dl) = (c.below(7) as usize, c.below(10) as usize);
                    m::NoteRec { n_type: c.below(5) as u32, name: if c.bool() { b"GNU\0".to_vec() } else { c.bytes(nl) }, desc: c.bytes(dl) }.write(&mut w, 0, 4);
                }
                secs.push(S { name: pick_name(c, b".note.x"), ty: m::SHT_NOTE, body: w.buf, tag: 50, align: 4 });
            }
            3 => {
                extra_hdr.insert(51, (*c.pick(&[0u64, 0x30, 0x20, 0x2]), if c.bool() { 0 } else { c.val(16) }));
                secs.push(S { name: pick_name(c, b".comment"), ty: m::SHT_STRTAB, body: b"\0GCC: (x) 1.0\0tail".to_vec(), tag: 51, align: 1 })
            }
            4 => secs.push(S { name: pick_name(c, b".bss"), ty: m::SHT_NOBITS, body: vec![], tag: 52, align: 1 }),
            _ => {
                let l = c.below(20) as usize;
                // (a PROGBITS section may carry SHF_STRINGS / SHF_MERGE: it is still not a string table)
                extra_hdr.insert(53, (*c.pick(&[0u64, 0x6, 0x30, 0x20, 0x32, 0x10]), if c.bool() { 0 } else { c.val(16) }));
                secs.push(S { name: pick_name(c, b".text"), ty: m::SHT_PROGBITS, body: c.bytes(l), tag: 53, align: 1 })
            }
        }
    }
    // shuffle the section order
    for i in (1..secs.len()).rev() {
        let j = c.idx(i + 1);
        secs.swap(i, j);
    }
    // (rarely the first real section sits at index 0: no SHT_NULL entry in front)
    let no_null = c.u8() >= 236;
    let mut sec_names: Vec<Vec<u8>> = vec![];
    if !no_null {
        f.add_sec(b"", m::SHT_NULL, vec![]);
        sec_names.push(vec![]);
    }
    let mut idx_of = std::collections::HashMap::new();
    // rarely: more than 0xffff sections, so that sh_link values and section indexes exceed 16 bits
    let big = !no_null && c.u8() == 0xA7 && c.u8() >= 208;
    if big {
        for _ in 0..0xffff + c.below(40) as usize {
            f.add_sec(b"", m::SHT_PROGBITS, vec![]);
            sec_names.push(vec![]);
        }
    }
    for s in &secs {
        let i = f.add_sec(&s.name, s.ty, s.body.clone());
        f.secs[i].hdr.sh_addralign = s.align;
        f.secs[i].align = s.align as usize;
        if s.ty == m::SHT_NOBITS {
            f.secs[i].no_space = true;
            f.secs[i].hdr.sh_size = 64;
        }
        if let Some((fl, es)) = extra_hdr.get(&s.tag) {
            f.secs[i].hdr.sh_flags = *fl;
            f.secs[i].hdr.sh_entsize = *es;
        }
        idx_of.insert(s.tag, i);
        sec_names.push(s.name.clone());
    }
    let shstr = if c.chance(230) {
        let i = f.add_sec(b".shstrtab", m::SHT_STRTAB, vec![]);
        f.shstrndx = Some(i);
        sec_names.push(b".shstrtab".to_vec());
        Some(i)
    } else {
        None
    };
    let _ = shstr;
    let nsec = f.secs.len();
    // wiring: sh_link of the symbol tables points at their string table, or at ANY section
    let any_link = c.chance(50);
    for (symtag, strtag, es) in [(1u8, 2u8, m::sym_size(enc)), (3, 4, m::sym_size(enc))] {
        if let Some(&i) = idx_of.get(&symtag) {
            f.secs[i].hdr.sh_entsize = es as u64;
            f.secs[i].hdr.sh_link = if any_link {
                // any section whose bytes exist in the file (a NOBITS section designates no file bytes)
                // (with extended numbering section 0 carries the section count in sh_size: not a data range either)
                let k = if big { 1 + c.idx(nsec - 1) } else { c.idx(nsec) };
                if f.secs[k].no_space {
                    // fall back to the first section that has file bytes (index 0 is the NULL section unless it was left out)
                    (if big { 1 } else { 0 }..nsec).find(|j| !f.secs[*j].no_space).unwrap_or(0) as u32
                } else {
                    k as u32
                }
            } else {
                idx_of[&strtag] as u32
            };
        }
    }
    if let Some(&i) = idx_of.get(&5) {
        f.secs[i].hdr.sh_entsize = m::dyn_size(enc) as u64;
        f.secs[i].hdr.sh_link = c.idx(nsec) as u32;
    }
    for t in [6u8, 7] {
        if let Some(&i) = idx_of.get(&t) {
            f.secs[i].hdr.sh_link = idx_of.get(&3).copied().unwrap_or(0) as u32;
        }
    }
    // segments: PT_DYNAMIC only together with .dynamic (the statement's scope), a PT_NOTE, others
    let mut has_pt_dynamic = false;
    if let Some(&i) = idx_of.get(&5) {
        if c.chance(170) {
            f.segs.push(Seg { hdr: m::Phdr { p_type: m::PT_DYNAMIC, p_flags: 6, p_memsz: 0x40, p_align: 8, ..Default::default() }, covers: Some(i) });
            has_pt_dynamic = true;
        }
    }
    if let Some(&i) = idx_of.get(&50) {
        if c.bool() {
            f.segs.push(Seg { hdr: m::Phdr { p_type: m::PT_NOTE, p_flags: 4, p_memsz: 1, p_align: 4, ..Default::default() }, covers: Some(i) });
        }
    }
    for _ in 0..c.below(3) {
        f.segs.push(Seg { hdr: m::Phdr { p_type: *c.pick(&[m::PT_LOAD, m::PT_NULL, 0x6474e551, 3]), p_memsz: 7, p_align: 4, ..Default::default() }, covers: Some(c.idx(nsec)) });
    }
    for i in (1..f.segs.len()).rev() {
        let j = c.idx(i + 1);
        f.segs.swap(i, j);
    }
    if dt_sym {
        f.segs.push(Seg { hdr: m::Phdr { p_type: m::PT_LOAD, p_flags: 5, p_offset: 0, p_vaddr: 0, p_paddr: 0, p_filesz: 1 << 20, p_memsz: 1 << 20, p_align: 0x1000 }, covers: None });
    }
    filegen::random_layout(c, &mut f, 16);
    let mut b = filegen::build(&f);
    if dt_sym {
        let at = |tag: u8| idx_of.get(&tag).map(|i| b.body_at[*i]);
        if let (Some((dyn_off, _)), Some((sym_off, _)), Some((str_off, str_len))) = (at(5), at(1), at(2)) {
            let hash_off = at(6).map(|x| x.0 as u64).unwrap_or(0);
            let vals = [sym_off as u64, str_off as u64, str_len as u64, m::sym_size(enc) as u64, hash_off];
            let (es, wd) = (m::dyn_size(enc), if enc.c64 { 8 } else { 4 });
            for (k, v) in vals.iter().enumerate() {
                let p = dyn_off + k * es + wd;
                let bytes = if enc.le { v.to_le_bytes()[..wd].to_vec() } else { v.to_be_bytes()[8 - wd..].to_vec() };
                b.bytes[p..p + wd].copy_from_slice(&bytes);
                dyns_m[k].d_un = *v;
            }
        }
    }
    let rels: Vec<(usize, Vec<m::Rel>)> = rels_m.into_iter().map(|(t, v)| (idx_of[&(t as u8)], v)).collect();
    let relas: Vec<(usize, Vec<m::Rela>)> = relas_m.into_iter().map(|(t, v)| (idx_of[&(t as u8)], v)).collect();
    Obj { enc, b, names, sec_names, rels, relas, dyns: dyns_m, kinds_present: (mask & 0x1f) as u32, has_pt_dynamic }
}

fn strtab_eq(a: &StringTable<'_>, b: &StringTable<'_>, upto: usize) -> bool {
    (0..upto + 2).all(|k| a.get_raw(k).ok() == b.get_raw(k).ok())
}

fn symtab_eq<E: EndianParse>(a: &SymbolTable<'_, E>, b: &SymbolTable<'_, E>) -> bool {
    a.len() == b.len() && a.iter().zip(b.iter()).all(|(x, y)| x == y) && a.iter().count() == b.iter().count()
}

fn check<E: EndianParse + core::fmt::Debug>(e: E, o: &Obj, c: &mut Choice, obs: &mut Obs) -> Result<(), String> {
    let data = &o.b.bytes;
    let enc = o.enc;
    let class = class_of(enc);
    let f = open_as(e, data).map_err(|er| format!("harness: generated object does not open: {}", err_name(&er)))?;
    let shdrs = f.section_headers().ok_or("no section headers")?;
    let cd = f.find_common_data().map_err(|er| format!("find_common_data failed with {:?} on a well-formed object (symbol_table: {}, dynamic_symbol_table: {}, dynamic: {})", er, ok_err(&f.symbol_table()), ok_err(&f.dynamic_symbol_table()), ok_err(&f.dynamic())))?;
    let find_type = |ty: u32| -> Option<SectionHeader> { shdrs.iter().find(|h| h.sh_type == ty) };
    // (a) common data vs the targeted accessors
    let st = f.symbol_table().map_err(|er| format!("symbol_table failed with {}", err_name(&er)))?;
    match (&cd.symtab, &cd.symtab_strs, &st) {
        (None, None, None) => {}
        (Some(a), Some(asx), Some((b, bs))) => {
            if !symtab_eq(a, b) || !strtab_eq(asx, bs, 64) {
                return Err("find_common_data().symtab / symtab_strs differ from symbol_table()".into());
            }
            obs.count("paths_compared", 1);
        }
        _ => return Err(format!("find_common_data has symtab={} strs={} but symbol_table() is {}", cd.symtab.is_some(), cd.symtab_strs.is_some(), st.is_some())),
    }
    if st.is_some() != find_type(m::SHT_SYMTAB).is_some() {
        return Err(format!("symbol_table() presence {} but a SHT_SYMTAB section exists: {}", st.is_some(), find_type(m::SHT_SYMTAB).is_some()));
    }
    let ds = f.dynamic_symbol_table().map_err(|er| format!("dynamic_symbol_table failed with {}", err_name(&er)))?;
    match (&cd.dynsyms, &cd.dynsyms_strs, &ds) {
        (None, None, None) => {}
        (Some(a), Some(asx), Some((b, bs))) => {
            if !symtab_eq(a, b) || !strtab_eq(asx, bs, 64) {
                return Err("find_common_data().dynsyms / dynsyms_strs differ from dynamic_symbol_table()".into());
            }
            obs.count("paths_compared", 1);
        }
        _ => return Err(format!("find_common_data has dynsyms={} strs={} but dynamic_symbol_table() is {}", cd.dynsyms.is_some(), cd.dynsyms_strs.is_some(), ds.is_some())),
    }
    if ds.is_some() != find_type(m::SHT_DYNSYM).is_some() {
        return Err("dynamic_symbol_table() presence does not match the presence of a SHT_DYNSYM section".into());
    }
    let dy = f.dynamic().map_err(|er| format!("dynamic failed with {}", err_name(&er)))?;
    match (&cd.dynamic, &dy) {
        (None, None) => {}
        (Some(a), Some(b)) => {
            if a.len() != b.len() || !a.iter().zip(b.iter()).all(|(x, y)| x == y) {
                return Err("find_common_data().dynamic differs from dynamic()".into());
            }
            if a.len() != o.dyns.len() || !a.iter().zip(o.dyns.iter()).all(|(x, y)| conv::dyn_eq(&x, y, enc)) {
                return Err(format!("dynamic() entries differ from the encoded entries {:?}", o.dyns));
            }
            if o.dyns.len() >= 2 {
                let mut it = b.iter();
                let _ = it.next();
                let k = o.dyns.len() - 2;
                match it.nth(k) {
                    Some(x) if conv::dyn_eq(&x, &o.dyns[k + 1], enc) => {}
                    x => return Err(format!("dynamic().iter(): next() then nth({}) = {:?}; the encoded entry #{} is {:?}", k, x, k + 1, o.dyns[k + 1])),
                }
            }
            match (b.iter().last(), o.dyns.last()) {
                (Some(x), Some(y)) if conv::dyn_eq(&x, y, enc) && b.iter().count() == o.dyns.len() => {}
                (None, None) => {}
                (x, y) => return Err(format!("dynamic().iter().last() = {:?} / count() = {}; the encoded entries end with {:?} and number {}", x, b.iter().count(), y, o.dyns.len())),
            }
            obs.count("paths_compared", 1);
        }
        _ => return Err(format!("find_common_data has dynamic={} but dynamic() is {}", cd.dynamic.is_some(), dy.is_some())),
    }
    if dy.is_some() != find_type(m::SHT_DYNAMIC).is_some() {
        return Err("dynamic() presence does not match the presence of a SHT_DYNAMIC section".into());
    }
    // hash tables rebuilt from section_data
    let queries: Vec<Vec<u8>> = o.names.iter().cloned().chain([b"absent".to_vec(), b"f".to_vec()]).collect();
    let hs = find_type(m::SHT_HASH);
    let hg = find_type(m::SHT_GNU_HASH);
    if cd.sysv_hash.is_some() != hs.is_some() || cd.gnu_hash.is_some() != hg.is_some() {
        return Err(format!("find_common_data has sysv_hash={} gnu_hash={} but the object has SHT_HASH={} SHT_GNU_HASH={}", cd.sysv_hash.is_some(), cd.gnu_hash.is_some(), hs.is_some(), hg.is_some()));
    }
    if let (Some((syms, strs)), true) = (&ds, hs.is_some() || hg.is_some()) {
        let linked_right = find_type(m::SHT_DYNSYM).map(|h| {
            let l = shdrs.get(h.sh_link as usize).ok();
            l.map(|l| l.sh_type == m::SHT_STRTAB && l.sh_size as usize == refs::build_symtab(enc, &o.names, 0, false).strtab.len().max(1) || true).unwrap_or(false)
        });
        let _ = linked_right;
        for q in &queries {
            if let (Some(h), Some(cdh)) = (&hs, &cd.sysv_hash) {
                let (sd, _) = f.section_data(h).map_err(|er| format!("section_data(.hash) {}", err_name(&er)))?;
                let t = SysVHashTable::new(e, class, sd).map_err(|er| format!("SysVHashTable::new {}", err_name(&er)))?;
                let a = cdh.find(q, syms, strs).map_err(|er| err_name(&er));
                let b = t.find(q, syms, strs).map_err(|er| err_name(&er));
                if a != b {
                    return Err(format!("SysV lookup of {:?}: common data {:?}, table rebuilt from section_data {:?}", String::from_utf8_lossy(q), a, b));
                }
                obs.count("hash_lookups_compared", 1);
            }
            if let (Some(h), Some(cdh)) = (&hg, &cd.gnu_hash) {
                let (sd, _) = f.section_data(h).map_err(|er| format!("section_data(.gnu.hash) {}", err_name(&er)))?;
                let t = GnuHashTable::new(e, class, sd).map_err(|er| format!("GnuHashTable::new {}", err_name(&er)))?;
                let a = cdh.find(q, syms, strs).map_err(|er| err_name(&er));
                let b = t.find(q, syms, strs).map_err(|er| err_name(&er));
                if a != b {
                    return Err(format!("GNU lookup of {:?}: common data {:?}, table rebuilt from section_data {:?}", String::from_utf8_lossy(q), a, b));
                }
                obs.count("hash_lookups_compared", 1);
            }
        }
    }
    // (b) lookup by name = first header whose name string equals the query (both parsers)
    let mut fs = open_stream_as(e, std::io::Cursor::new(data)).map_err(|er| format!("harness: object does not open as a stream: {}", err_name(&er)))?;
    let shstr: Option<&[u8]> = if o.b.ehdr.e_shstrndx != 0 {
        let idx = if o.b.ehdr.e_shstrndx == 0xffff { o.b.shdrs[0].sh_link as usize } else { o.b.ehdr.e_shstrndx as usize };
        let h = &o.b.shdrs[idx];
        Some(&data[h.sh_offset as usize..(h.sh_offset + h.sh_size) as usize])
    } else {
        None
    };
    let mut qnames: Vec<String> = o.sec_names.iter().filter_map(|n| String::from_utf8(n.clone()).ok()).collect();
    for extra in [".te", ".text.ho", ".text.hot.x", "", ".", "ext", ".nosuch", ".data"] {
        qnames.push(extra.to_string());
    }
    // queries with an interior or leading NUL that line up with adjacent string-table entries
    for w in o.sec_names.windows(2) {
        if let (Ok(a), Ok(b)) = (std::str::from_utf8(&w[0]), std::str::from_utf8(&w[1])) {
            qnames.push(format!("{}\0{}", a, b));
        }
    }
    qnames.push("\0.text".to_string());
    qnames.push(".text\0".to_string());
    qnames.sort();
    qnames.dedup();
    if qnames.len() > 60 {
        // keep the work bounded for objects with tens of thousands of sections
        let step = qnames.len() / 60 + 1;
        qnames = qnames.into_iter().step_by(step).collect();
    }
    let mut dup_or_prefix = false;
    for q in &qnames {
        let want: Option<SectionHeader> = shstr.and_then(|tab| {
            o.b.shdrs.iter().map(|h| conv::shdr(h, enc)).find(|h| {
                let off = h.sh_name as usize;
                if off >= tab.len() {
                    return false;
                }
                match tab[off..].iter().position(|z| *z == 0) {
                    Some(p) => std::str::from_utf8(&tab[off..off + p]).map(|s| s == q).unwrap_or(false),
                    None => false,
                }
            })
        });
        let got = f.section_header_by_name(q).map_err(|er| format!("section_header_by_name({:?}) failed with {}", q, err_name(&er)))?;
        if got != want {
            return Err(format!("ElfBytes::section_header_by_name({:?}) = {:?}, the first header with that name is {:?}", q, got, want));
        }
        let gs = fs.section_header_by_name(q).map_err(|er| format!("ElfStream::section_header_by_name({:?}) failed with {}", q, err_name(&er)))?.copied();
        if gs != want {
            return Err(format!("ElfStream::section_header_by_name({:?}) = {:?}, the first header with that name is {:?}", q, gs, want));
        }
        if o.sec_names.iter().filter(|n| n.as_slice() == q.as_bytes()).count() >= 2 || o.sec_names.iter().any(|n| n.len() > q.len() && n.starts_with(q.as_bytes()) && !q.is_empty()) {
            dup_or_prefix = true;
        }
        obs.count("by_name_queries", 1);
    }
    // (c) typed views of every section / segment
    let mut refusals = 0u64;
    let skip_fill = o.b.shdrs.len().saturating_sub(60);
    for (i, hm) in o.b.shdrs.iter().enumerate().skip(skip_fill) {
        let h = conv::shdr(hm, enc);
        let body: &[u8] = if hm.sh_type == m::SHT_NOBITS { &[] } else { &data[hm.sh_offset as usize..(hm.sh_offset + hm.sh_size) as usize] };
        // strtab
        let rb = f.section_data_as_strtab(&h);
        let rs = fs.section_data_as_strtab(&h).map(|t| (0..body.len() + 2).map(|k| t.get_raw(k).ok().map(|s| s.to_vec())).collect::<Vec<_>>());
        if (hm.sh_type == m::SHT_STRTAB) != rb.is_ok() || (hm.sh_type == m::SHT_STRTAB) != rs.is_ok() {
            return Err(format!("section {} of type {:#x}: section_data_as_strtab is {} (slice) / {} (stream)", i, hm.sh_type, rb.is_ok(), rs.is_ok()));
        }
        if let (Ok(t), Ok(svec)) = (&rb, &rs) {
            for k in 0..body.len() + 2 {
                let want = if k < body.len() { body[k..].iter().position(|z| *z == 0).map(|p| &body[k..k + p]) } else { None };
                if t.get_raw(k).ok() != want || svec[k].as_deref() != want {
                    return Err(format!("section {} as string table: string at {} differs from the raw bytes", i, k));
                }
            }
        } else {
            refusals += 1;
        }
        // rels
        let rb = f.section_data_as_rels(&h).map(|it| it.collect::<Vec<_>>());
        let rs = fs.section_data_as_rels(&h).map(|it| it.collect::<Vec<_>>());
        if (hm.sh_type == m::SHT_REL) != rb.is_ok() || (hm.sh_type == m::SHT_REL) != rs.is_ok() {
            return Err(format!("section {} of type {:#x}: section_data_as_rels is {} (slice) / {} (stream)", i, hm.sh_type, rb.is_ok(), rs.is_ok()));
        }
        if let (Ok(a), Ok(b)) = (&rb, &rs) {
            let want: Vec<_> = o.rels.iter().find(|(k, _)| *k == i).map(|(_, v)| v.iter().map(|r| conv::rel(r, enc)).collect()).unwrap_or_default();
            let same = |x: &Vec<elf::relocation::Rel>| x.len() == want.len() && x.iter().zip(want.iter()).all(|(p, q): (&elf::relocation::Rel, &elf::relocation::Rel)| conv::FieldEq::field_eq(p, q));
            // (the stream parser's handling of SHF_COMPRESSED sections is outside C07's and this statement's scope)
            let compressed = hm.sh_flags & 0x800 != 0;
            if !same(a) || (!compressed && !same(b)) {
                return Err(format!("section {} (flags {:#x}) as Rel entries: slice {:?} stream {:?}, encoded {:?}", i, hm.sh_flags, a, b, want));
            }
            // the iterator's own last()/count() on both paths
            let (la, na) = (f.section_data_as_rels(&h).ok().and_then(|it| it.last()), f.section_data_as_rels(&h).map(|it| it.count()).unwrap_or(usize::MAX));
            let (lb, nb) = (fs.section_data_as_rels(&h).ok().and_then(|it| it.last()), fs.section_data_as_rels(&h).map(|it| it.count()).unwrap_or(usize::MAX));
            let eq = |x: &Option<elf::relocation::Rel>, y: Option<&elf::relocation::Rel>| match (x, y) {
                (Some(p), Some(q)) => conv::FieldEq::field_eq(p, q),
                (None, None) => true,
                _ => false,
            };
            // nth() on a partly consumed iterator counts from the cursor
            if want.len() >= 2 {
                let mut it = f.section_data_as_rels(&h).map_err(|e| format!("{}", err_name(&e)))?;
                let _ = it.next();
                let k = want.len() - 2;
                let g = it.nth(k);
                if !eq(&g, want.get(k + 1)) {
                    return Err(format!("section {} as Rel entries: next() then nth({}) = {:?}; the encoded entry #{} is {:?}", i, k, g, k + 1, want.get(k + 1)));
                }
            }
            if !eq(&la, want.last()) || na != want.len() || (!compressed && (!eq(&lb, want.last()) || nb != want.len())) {
                return Err(format!("section {} as Rel entries: last()/count() = {:?}/{} (slice) {:?}/{} (stream); the encoded entries end with {:?} and number {}", i, la, na, lb, nb, want.last(), want.len()));
            }
        } else {
            refusals += 1;
        }
        let rb = f.section_data_as_relas(&h).map(|it| it.collect::<Vec<_>>());
        let rs = fs.section_data_as_relas(&h).map(|it| it.collect::<Vec<_>>());
        if (hm.sh_type == m::SHT_RELA) != rb.is_ok() || (hm.sh_type == m::SHT_RELA) != rs.is_ok() {
            return Err(format!("section {} of type {:#x}: section_data_as_relas is {} (slice) / {} (stream)", i, hm.sh_type, rb.is_ok(), rs.is_ok()));
        }
        if let (Ok(a), Ok(b)) = (&rb, &rs) {
            let want: Vec<_> = o.relas.iter().find(|(k, _)| *k == i).map(|(_, v)| v.iter().map(|r| conv::rela(r, enc)).collect()).unwrap_or_default();
            let same = |x: &Vec<elf::relocation::Rela>| x.len() == want.len() && x.iter().zip(want.iter()).all(|(p, q): (&elf::relocation::Rela, &elf::relocation::Rela)| conv::FieldEq::field_eq(p, q));
            let compressed = hm.sh_flags & 0x800 != 0;
            if !same(a) || (!compressed && !same(b)) {
                return Err(format!("section {} (flags {:#x}) as Rela entries: slice {:?} stream {:?}, encoded {:?}", i, hm.sh_flags, a, b, want));
            }
            let (la, na) = (f.section_data_as_relas(&h).ok().and_then(|it| it.last()), f.section_data_as_relas(&h).map(|it| it.count()).unwrap_or(usize::MAX));
            let (lb, nb) = (fs.section_data_as_relas(&h).ok().and_then(|it| it.last()), fs.section_data_as_relas(&h).map(|it| it.count()).unwrap_or(usize::MAX));
            let eq = |x: &Option<elf::relocation::Rela>, y: Option<&elf::relocation::Rela>| match (x, y) {
                (Some(p), Some(q)) => conv::FieldEq::field_eq(p, q),
                (None, None) => true,
                _ => false,
            };
            if want.len() >= 2 {
                let mut it = f.section_data_as_relas(&h).map_err(|e| format!("{}", err_name(&e)))?;
                let _ = it.next();
                let k = want.len() - 2;
                let g = it.nth(k);
                if !eq(&g, want.get(k + 1)) {
                    return Err(format!("section {} as Rela entries: next() then nth({}) = {:?}; the encoded entry #{} is {:?}", i, k, g, k + 1, want.get(k + 1)));
                }
            }
            if !eq(&la, want.last()) || na != want.len() || (!compressed && (!eq(&lb, want.last()) || nb != want.len())) {
                return Err(format!("section {} as Rela entries: last()/count() = {:?}/{} (slice) {:?}/{} (stream); the encoded entries end with {:?} and number {}", i, la, na, lb, nb, want.last(), want.len()));
            }
        } else {
            refusals += 1;
        }
        // notes
        let digest = |it: elf::note::NoteIterator<'_, E>| -> Vec<(u64, Vec<u8>, Vec<u8>)> {
            it.map(|n| match n {
                Note::GnuAbiTag(t) => (1u64 << 40, vec![], [t.os, t.major, t.minor, t.subminor].iter().flat_map(|v| v.to_le_bytes()).collect()),
                Note::GnuBuildId(b) => (3u64 << 40, vec![], b.0.to_vec()),
                Note::Unknown(a) => (a.n_type, a.name.to_vec(), a.desc.to_vec()),
            })
            .collect()
        };
        let rb = f.section_data_as_notes(&h).map(digest);
        let rs = fs.section_data_as_notes(&h).map(digest);
        if (hm.sh_type == m::SHT_NOTE) != rb.is_ok() || (hm.sh_type == m::SHT_NOTE) != rs.is_ok() {
            return Err(format!("section {} of type {:#x}: section_data_as_notes is {} (slice) / {} (stream)", i, hm.sh_type, rb.is_ok(), rs.is_ok()));
        }
        if let (Ok(a), Ok(b)) = (&rb, &rs) {
            let (want, _) = refs::walk_notes(enc.le, hm.sh_addralign, body);
            let wd: Vec<(u64, Vec<u8>, Vec<u8>)> = want
                .iter()
                .map(|w| {
                    let name = &body[w.name.0..w.name.1];
                    let desc = &body[w.desc.0..w.desc.1];
                    if name == b"GNU\0" && w.n_type == 1 && desc.len() >= 16 {
                        (1u64 << 40, vec![], (0..4).flat_map(|k| refs::rd_u32(enc.le, desc, 4 * k).unwrap().to_le_bytes()).collect())
                    } else if name == b"GNU\0" && w.n_type == 3 {
                        (3u64 << 40, vec![], desc.to_vec())
                    } else {
                        (w.n_type as u64, name.to_vec(), desc.to_vec())
                    }
                })
                .collect();
            // an ABI-tag note with a short descriptor ends the iteration in the crate: compare up to it
            let cut = want.iter().position(|w| &body[w.name.0..w.name.1] == b"GNU\0" && w.n_type == 1 && w.desc.1 - w.desc.0 < 16).unwrap_or(wd.len());
            // (or goes on with that record untyped, which is as faithful: then everything is compared)
            let ok = |x: &Vec<(u64, Vec<u8>, Vec<u8>)>| x[..] == wd[..cut] || x[..] == wd[..];
            if !ok(a) || !ok(b) || a != b {
                return Err(format!("section {} as notes: slice {:?} stream {:?}, reference walk {:?}", i, a, b, &wd[..]));
            }
        } else {
            refusals += 1;
        }
    }
    for (i, pm) in o.b.phdrs.iter().enumerate() {
        let p = conv::phdr(pm, enc);
        let rb = f.segment_data_as_notes(&p).is_ok();
        let rs = fs.segment_data_as_notes(&p).is_ok();
        if (pm.p_type == m::PT_NOTE) != rb || (pm.p_type == m::PT_NOTE) != rs {
            return Err(format!("segment {} of type {:#x}: segment_data_as_notes is {} (slice) / {} (stream)", i, pm.p_type, rb, rs));
        }
        if !rb {
            refusals += 1;
        }
    }
    obs.count("wrong_type_refusals", refusals);
    // (d) .dynamic via the section vs PT_DYNAMIC of the stripped twin
    if o.has_pt_dynamic {
        let mut twin = data.clone();
        let mut eh = o.b.ehdr.clone();
        eh.e_shoff = 0;
        eh.e_shnum = 0;
        eh.e_shstrndx = 0;
        let hb = m::enc_bytes(enc, |w| eh.write(w));
        twin[..hb.len()].copy_from_slice(&hb);
        let ft = open_as(e, &twin).map_err(|er| format!("harness: stripped twin does not open: {}", err_name(&er)))?;
        let dt = ft.dynamic().map_err(|er| format!("dynamic() of the stripped twin failed with {}", err_name(&er)))?.ok_or("dynamic() of the stripped twin (PT_DYNAMIC present) returned None")?;
        let d0 = dy.as_ref().ok_or("dynamic() returned None although .dynamic exists")?;
        if d0.len() != dt.len() || !d0.iter().zip(dt.iter()).all(|(x, y)| x == y) {
            return Err("dynamic() through .dynamic differs from dynamic() of the stripped twin through PT_DYNAMIC although both designate the same bytes".into());
        }
        let cdt = ft.find_common_data().map_err(|er| format!("find_common_data of the stripped twin failed with {}", err_name(&er)))?;
        match cdt.dynamic {
            Some(t) if t.len() == dt.len() && t.iter().zip(dt.iter()).all(|(x, y)| x == y) => {}
            _ => return Err("find_common_data().dynamic of the stripped twin differs from its dynamic()".into()),
        }
        let mut st2 = open_stream_as(e, std::io::Cursor::new(&twin)).map_err(|er| format!("harness: twin stream: {}", err_name(&er)))?;
        let ds2 = st2.dynamic().map_err(|er| format!("ElfStream::dynamic() of the stripped twin failed with {}", err_name(&er)))?.ok_or("ElfStream::dynamic() of the stripped twin returned None")?;
        if ds2.len() != dt.len() || !ds2.iter().zip(dt.iter()).all(|(x, y)| x == y) {
            return Err("ElfStream::dynamic() of the stripped twin differs from ElfBytes::dynamic()".into());
        }
        obs.count("twin_comparisons", 1);
        obs.label("stripped_twin_compared");
    }
    let _ = c;
    let kinds = o.kinds_present.count_ones();
    obs.label_if(kinds >= 3, "3+kinds_present");
    obs.label_if(o.b.shdrs.len() > 0xffff, "more_than_0xffff_sections");
    obs.label_if(dup_or_prefix, "duplicate_or_prefix_name_query");
    if kinds >= 3 && refusals > 0 && dup_or_prefix {
        obs.nontrivial();
    }
    Ok(())
}

/// One or two header fields of the symbol-table / dynamic / hash sections damaged: the one-pass discovery and the
/// targeted accessors must still agree: both refuse, or both succeed with the same tables.
fn damaged_check<E: EndianParse + core::fmt::Debug>(e: E, o: &Obj, data: &[u8], what: &str, obs: &mut Obs) -> Result<(), String> {
    let class = class_of(o.enc);
    let f = match open_as(e, data) {
        Ok(f) => f,
        Err(_) => {
            obs.label("damaged_object_does_not_open");
            return Ok(());
        }
    };
    let shdrs = match f.section_headers() {
        Some(t) => t,
        None => return Ok(()),
    };
    let st = guard(|| f.symbol_table()).map_err(|p| format!("symbol_table panicked: {}", p))?;
    let ds = guard(|| f.dynamic_symbol_table()).map_err(|p| format!("dynamic_symbol_table panicked: {}", p))?;
    let dy = guard(|| f.dynamic()).map_err(|p| format!("dynamic panicked: {}", p))?;
    let raw = |h: &SectionHeader| -> Option<&[u8]> {
        let s = usize::try_from(h.sh_offset).ok()?;
        let n = usize::try_from(h.sh_size).ok()?;
        data.get(s..s.checked_add(n)?)
    };
    let hs = shdrs.iter().find(|h| h.sh_type == m::SHT_HASH).map(|h| raw(&h).ok_or(()).and_then(|b| SysVHashTable::new(e, class, b).map_err(|_| ())));
    let hg = shdrs.iter().find(|h| h.sh_type == m::SHT_GNU_HASH).map(|h| raw(&h).ok_or(()).and_then(|b| GnuHashTable::new(e, class, b).map_err(|_| ())));
    let failing: Vec<&str> = [("symbol_table()", st.is_err()), ("dynamic_symbol_table()", ds.is_err()), ("dynamic()", dy.is_err()), ("SysVHashTable::new(.hash bytes)", matches!(hs, Some(Err(())))), ("GnuHashTable::new(.gnu.hash bytes)", matches!(hg, Some(Err(()))))].iter().filter(|x| x.1).map(|x| x.0).collect();
    let cd = guard(|| f.find_common_data()).map_err(|p| format!("find_common_data panicked: {}", p))?;
    match (&cd, failing.is_empty()) {
        (Ok(_), false) => return Err(format!("{}: find_common_data() succeeds although {} fail(s) on the same object", what, failing.join(", "))),
        (Err(er), true) => return Err(format!("{}: find_common_data() fails with {} although symbol_table(), dynamic_symbol_table(), dynamic() and the hash-table constructors all succeed on the same object", what, err_name(er))),
        (Err(_), false) => {
            obs.label("damaged_both_refuse");
            obs.nontrivial();
            return Ok(());
        }
        (Ok(_), true) => {}
    }
    let cd = cd.unwrap();
    match (&cd.symtab, &cd.symtab_strs, st.as_ref().unwrap()) {
        (None, None, None) => {}
        (Some(a), Some(asx), Some((b, bs))) if symtab_eq(a, b) && strtab_eq(asx, bs, 48) => {}
        _ => return Err(format!("{}: find_common_data().symtab / symtab_strs differ from symbol_table()", what)),
    }
    match (&cd.dynsyms, &cd.dynsyms_strs, ds.as_ref().unwrap()) {
        (None, None, None) => {}
        (Some(a), Some(asx), Some((b, bs))) if symtab_eq(a, b) && strtab_eq(asx, bs, 48) => {}
        _ => return Err(format!("{}: find_common_data().dynsyms / dynsyms_strs differ from dynamic_symbol_table()", what)),
    }
    match (&cd.dynamic, dy.as_ref().unwrap()) {
        (None, None) => {}
        (Some(a), Some(b)) if a.len() == b.len() && a.iter().zip(b.iter()).all(|(x, y)| x == y) => {}
        _ => return Err(format!("{}: find_common_data().dynamic differs from dynamic()", what)),
    }
    if cd.sysv_hash.is_some() != hs.is_some() || cd.gnu_hash.is_some() != hg.is_some() {
        return Err(format!("{}: find_common_data() hash-table presence differs from the sections present", what));
    }
    if let Some((syms, strs)) = ds.as_ref().unwrap() {
        for q in o.names.iter().take(12) {
            if let (Some(a), Some(Ok(b))) = (&cd.sysv_hash, &hs) {
                if a.find(q, syms, strs).map_err(|_| ()) != b.find(q, syms, strs).map_err(|_| ()) {
                    return Err(format!("{}: SysV lookup of {:?} differs between common data and the table built from the section bytes", what, String::from_utf8_lossy(q)));
                }
            }
            if let (Some(a), Some(Ok(b))) = (&cd.gnu_hash, &hg) {
                if a.find(q, syms, strs).map_err(|_| ()) != b.find(q, syms, strs).map_err(|_| ()) {
                    return Err(format!("{}: GNU lookup of {:?} differs between common data and the table built from the section bytes", what, String::from_utf8_lossy(q)));
                }
            }
        }
    }
    obs.label("damaged_both_accept");
    Ok(())
}

fn oracle_damaged(case: &[u8], obs: &mut Obs) -> Result<(), String> {
    let mut c = Choice::new(case);
    let o = gen_obj(&mut c);
    let enc = o.enc;
    let spec = specs_for(enc.le)[c.below(2) as usize];
    let kinds: Vec<usize> = o.b.shdrs.iter().enumerate().filter(|(_, h)| [m::SHT_SYMTAB, m::SHT_DYNSYM, m::SHT_DYNAMIC, m::SHT_HASH, m::SHT_GNU_HASH].contains(&h.sh_type)).map(|(i, _)| i).collect();
    if kinds.is_empty() || !o.b.has_shdrs || o.b.shdrs.len() > 4096 {
        obs.label("nothing_to_damage");
        return Ok(());
    }
    let mut data = o.b.bytes.clone();
    let mut what = String::new();
    let nsec = o.b.shdrs.len() as u64;
    let flen = data.len() as u64;
    for _ in 0..1 + c.below(2) {
        let i = kinds[c.idx(kinds.len())];
        let h = &o.b.shdrs[i];
        let right = h.sh_entsize;
        // (field name, offset in the ELF64 / ELF32 header, width in bytes ELF64 / ELF32)
        let (name, o64, o32, w64, w32, v): (&str, usize, usize, usize, usize, u64) = match c.below(5) {
            0 | 1 => ("sh_entsize", 56, 36, 8, 4, *c.pick(&[0u64, 1, right.wrapping_sub(1), right + 1, if enc.c64 { 16 } else { 24 }, 8, 0xffff, 0x1_0000_0000 + right])),
            2 => ("sh_link", 40, 24, 4, 4, *c.pick(&[nsec, nsec + 1, 0xffff_ffff, 0xffff, 0])),
            3 => ("sh_size", 32, 20, 8, 4, *c.pick(&[flen, flen + 1, u64::MAX, 0xffff_ffff, 0, 1, 7])),
            _ => ("sh_offset", 24, 16, 8, 4, *c.pick(&[flen, flen + 1, u64::MAX, 0xffff_fff0, flen - 1])),
        };
        let (fo, w) = if enc.c64 { (o64, w64) } else { (o32, w32) };
        let at = o.b.shoff + i * m::shdr_size(enc) + fo;
        if at + w > data.len() {
            continue;
        }
        let bytes = if enc.le { v.to_le_bytes()[..w].to_vec() } else { v.to_be_bytes()[8 - w..].to_vec() };
        data[at..at + w].copy_from_slice(&bytes);
        what.push_str(&format!("section {} (type {:#x}) {} := {:#x}; ", i, h.sh_type, name, v));
    }
    let what = format!("{} {} object of {} bytes, {} sections, damaged: {}", enc.name(), SPEC_NAMES[spec as usize], data.len(), nsec, what);
    with_endian!(spec, |e| damaged_check(e, &o, &data, &what, obs))?;
    obs.key = fnv64(&data) ^ spec as u64;
    obs.describe(|| json!({"case": what}));
    Ok(())
}

fn oracle(case: &[u8], obs: &mut Obs) -> Result<(), String> {
    let mut c = Choice::new(case);
    let o = gen_obj(&mut c);
    let spec = specs_for(o.enc.le)[c.below(2) as usize];
    let tail = o.b.shdrs.len().saturating_sub(16);
    with_endian!(spec, |e| check(e, &o, &mut c, obs)).map_err(|s| format!("{} {} object of {} bytes with {} sections (last: {:?}): {}", o.enc.name(), SPEC_NAMES[spec as usize], o.b.bytes.len(), o.b.shdrs.len(), o.sec_names.iter().zip(o.b.shdrs.iter()).skip(tail).map(|(n, h)| format!("{}:{:#x}", String::from_utf8_lossy(n), h.sh_type)).collect::<Vec<_>>(), s))?;
    obs.key = fnv64(&o.b.bytes) ^ spec as u64;
    obs.describe(|| json!({"enc": o.enc.name(), "spec": SPEC_NAMES[spec as usize], "file_len": o.b.bytes.len(), "sections": o.sec_names.iter().zip(o.b.shdrs.iter()).skip(tail).map(|(n, h)| format!("{}:type{:#x}:link{}", String::from_utf8_lossy(n), h.sh_type, h.sh_link)).collect::<Vec<_>>(), "segments": o.b.phdrs.iter().map(|p| format!("{:#x}", p.p_type)).collect::<Vec<_>>(), "pt_dynamic": o.has_pt_dynamic}));
    Ok(())
}

pub fn property() -> Property {
    let _ = Override { target: Target::Ehdr, field: "", value: 0 };
    Property {
        id: "C20",
        level: "exploration",
        rule: "cases are generated objects with at most one section of each kind, each of .symtab(+strtab), .dynsym(+dynstr), .dynamic, .hash, .gnu.hash present or absent independently, 1..5 filler sections of types REL/RELA/NOTE/STRTAB/NOBITS/PROGBITS with arbitrary sh_entsize and flags such as SHF_STRINGS/SHF_MERGE/SHF_INFO_LINK (an eighth of the REL/RELA sections flagged SHF_COMPRESSED behind a compression header, where the view is the view over section_data; a fifth ending in a partial entry), sections in shuffled order (5%: no SHT_NULL entry in front; rarely 65 541+ sections so that indexes and sh_link values exceed 16 bits), names drawn from a pool of prefixes/suffixes of each other, duplicates, the empty name, a non-UTF-8 name, names differing from another by a trailing 0x01/0x7f/U+0080 byte and names longer than 16 bytes, sh_link of the symbol tables pointing at their string table or at ANY section, PT_DYNAMIC only together with .dynamic, PT_NOTE/other segments, a share of the objects without a .dynsym section carrying DT_SYMTAB/DT_STRTAB/DT_STRSZ/DT_SYMENT/DT_HASH entries that point at a symbol table inside an identity-mapped PT_LOAD, class x order x fixed/run-time spec. Oracle: find_common_data() fields vs symbol_table(), dynamic_symbol_table(), dynamic() (presence, every entry, strings at every offset) and vs hash tables rebuilt from section_data (every name looked up through both); section_header_by_name(n) (both parsers) = first header of a manual scan whose UTF-8 name string equals n, for every present name, prefixes, extensions, absent names and queries containing NULs that line up with adjacent string-table entries; every section handed to every typed view (strtab, rels, relas, notes; both parsers): refused iff the type differs, otherwise entries equal the encoded model / the reference walk of the raw bytes, and the relocation iterators' and the dynamic table's own last(), count() and next-then-nth agree with that model on both parsers; segment_data_as_notes refused iff p_type != PT_NOTE; dynamic() via .dynamic equals dynamic() and find_common_data().dynamic of the stripped twin (e_shoff=0) via PT_DYNAMIC, both parsers. Non-trivial: >=3 kinds present, at least one wrong-type refusal and one duplicate/prefix name query; distinct by file hash. Subcheck damaged: the same objects with one or two fields (sh_entsize, sh_link, sh_size, sh_offset) of the .symtab/.dynsym/.dynamic/.hash/.gnu.hash section headers overwritten with wrong values (0, off by one, the other class's size, counts, beyond EOF, 2^32+right): find_common_data() succeeds exactly when symbol_table(), dynamic_symbol_table(), dynamic() and the hash-table constructors on the raw section bytes all succeed, and then holds the same tables; non-trivial there: both refuse.",
        assumptions: &["only refusal (Err) is required for wrong-type views, not a particular error kind", "in subcheck paths objects are well formed, so find_common_data and the targeted accessors are required to succeed; in subcheck damaged only their agreement is required"],
        subs: vec![Sub::new("paths", oracle, 900, 800_000, 25_000_000).shrink(2500), Sub::new("damaged", oracle_damaged, 900, 150_000, 10_000_000).shrink(2500)],
        extras: vec![crate::fuzz::c20_choice_paths, crate::fuzz::c20_choice_damaged],
    }
}
