//! Cross-cutting, allocation-free walker over every public entry point of the no_std core (C01, C06,
//! C16). Results are only folded into a checksum; iterators are driven to `bound+1` items so that an
//! iterator yielding more than one item per input byte (or more than its declared count) is noticed.
use crate::common::*;
use core::fmt::Write;
use elf::compression::CompressionHeader;
use elf::dynamic::Dyn;
use elf::file::FileHeader;
use elf::gnu_symver::*;
use elf::hash::*;
use elf::note::{Note, NoteGnuAbiTag, NoteIterator};
use elf::relocation::{Rel, Rela};
use elf::section::SectionHeader;
use elf::segment::ProgramHeader;
use elf::string_table::StringTable;
use elf::symbol::{Symbol, SymbolTable};
use elf::ElfBytes;

pub struct Sink(pub u64);
impl Write for Sink {
    fn write_str(&mut self, s: &str) -> core::fmt::Result {
        for b in s.bytes() {
            self.0 = self.0.wrapping_mul(31).wrapping_add(b as u64);
        }
        Ok(())
    }
}

pub const F_OPENED: u64 = 1 << 0;
pub const F_SYSV_FIND: u64 = 1 << 1;
pub const F_GNU_FIND: u64 = 1 << 2;
pub const F_SYMVER: u64 = 1 << 3;
pub const F_NOTES: u64 = 1 << 4;
pub const F_FABRICATED: u64 = 1 << 5;
pub const F_IDENT_SHORT: u64 = 1 << 6;
pub const F_STRTAB: u64 = 1 << 7;
pub const F_RELS: u64 = 1 << 8;
pub const F_DYNAMIC: u64 = 1 << 9;
pub const F_SYMTAB: u64 = 1 << 10;
pub const F_DEEP_STANDALONE: u64 = 1 << 11;
pub const F_VERITER: u64 = 1 << 12;
pub const F_SEGMENTS: u64 = 1 << 13;
pub const F_SECTIONS: u64 = 1 << 14;
pub const F_COMMON: u64 = 1 << 15;
pub const F_FIND_HIT: u64 = 1 << 16;
pub const F_REQ_HIT: u64 = 1 << 17;
pub const F_DEF_HIT: u64 = 1 << 18;
pub const FLAG_NAMES: [(u64, &str); 19] = [
    (F_OPENED, "opened"),
    (F_SYSV_FIND, "sysv_find_executed"),
    (F_GNU_FIND, "gnu_find_executed"),
    (F_SYMVER, "symver_queries"),
    (F_NOTES, "notes_iterated"),
    (F_FABRICATED, "fabricated_header_calls"),
    (F_IDENT_SHORT, "ident_shorter_than_16"),
    (F_STRTAB, "strtab_lookups"),
    (F_RELS, "relocs_iterated"),
    (F_DYNAMIC, "dynamic_table"),
    (F_SYMTAB, "symbol_table"),
    (F_DEEP_STANDALONE, "standalone_parse_past_validation"),
    (F_VERITER, "version_iterators"),
    (F_SEGMENTS, "segments"),
    (F_SECTIONS, "sections"),
    (F_COMMON, "find_common_data_ok"),
    (F_FIND_HIT, "hash_find_hit"),
    (F_REQ_HIT, "requirement_found"),
    (F_DEF_HIT, "definition_found"),
];

pub struct WalkStats {
    pub flags: u64,
    pub sink: Sink,
    /// (what, items yielded, bound) of the first iterator that exceeded its bound
    pub bound_violation: Option<(&'static str, u64, u64)>,
    /// per-iterator item budget (usize::MAX for C16: drive to bound+1)
    pub budget: usize,
    pub items: u64,
    pub calls: u64,
}

impl WalkStats {
    pub fn new(budget: usize) -> WalkStats {
        WalkStats { flags: 0, sink: Sink(0), bound_violation: None, budget, items: 0, calls: 0 }
    }
}

fn absorb(e: &ParseError, st: &mut WalkStats) {
    let _ = write!(st.sink, "{}", e);
    let _ = write!(st.sink, "{:?}", e);
    let s = std::error::Error::source(e);
    st.sink.0 = st.sink.0.wrapping_add(s.is_some() as u64);
}

macro_rules! fold {
    ($st:expr, $r:expr) => {{
        $st.calls += 1;
        match $r {
            Ok(v) => Some(v),
            Err(e) => {
                absorb(&e, $st);
                None
            }
        }
    }};
}

/// Drive an iterator to at most bound+1 items (and at most the budget); record a bound violation.
fn drive<I: Iterator>(it: I, bound: u64, what: &'static str, st: &mut WalkStats, mut f: impl FnMut(I::Item, &mut WalkStats)) -> u64 {
    let mut n = 0u64;
    for x in it {
        n += 1;
        st.items += 1;
        f(x, st);
        if n > bound {
            if st.bound_violation.is_none() {
                st.bound_violation = Some((what, n, bound));
            }
            break;
        }
        if n as usize >= st.budget {
            break;
        }
    }
    n
}

/// Exercise an iterator through the provided Iterator methods (size_hint, nth, skip, step_by, last, count),
/// also after exhaustion; every loop is bounded.
fn poke<I: Iterator>(mk: impl Fn() -> I, c: &mut Choice, st: &mut WalkStats, bound: u64) {
    // (a quarter of the opportunities: the walk visits dozens of iterators per case)
    if c.u8() >= 64 {
        return;
    }
    let mut it = mk();
    let (lo, hi) = it.size_hint();
    st.sink.0 = st.sink.0.wrapping_add(lo as u64 ^ hi.unwrap_or(0) as u64);
    let k = c.below(6) as usize;
    let _ = it.nth(k);
    let _ = it.size_hint();
    let _ = it.next();
    let big = *c.pick(&[usize::MAX, usize::MAX / 2, 1usize << 32, 70_000, 7]);
    let _ = it.nth(big);
    let (lo2, hi2) = it.size_hint();
    st.sink.0 = st.sink.0.wrapping_add(lo2 as u64 ^ hi2.unwrap_or(0) as u64);
    let _ = it.next();
    let _ = it.size_hint();
    let mut n = 0u64;
    for _ in mk().skip(c.below(4) as usize).step_by(1 + c.below(3) as usize) {
        n += 1;
        if n > bound || n as usize >= st.budget {
            break;
        }
    }
    if bound <= st.budget as u64 && bound <= 4096 {
        st.sink.0 = st.sink.0.wrapping_add(mk().take(bound as usize + 1).count() as u64);
        st.sink.0 = st.sink.0.wrapping_add(mk().take(bound as usize + 1).last().is_some() as u64);
    }
}

fn probe_indices(len: usize, c: &mut Choice, es: usize) -> [usize; 8] {
    [0, 1, len.wrapping_sub(1), len, len.wrapping_add(1), usize::MAX / es.max(1) + (c.below(3) as usize), usize::MAX - c.below(2) as usize, c.val(64) as usize]
}

fn table_probe<E: EndianParse, P: ParseAt + core::fmt::Debug>(t: &ParsingTable<'_, E, P>, es: usize, c: &mut Choice, st: &mut WalkStats, bound: u64, what: &'static str) {
    let len = t.len();
    st.sink.0 = st.sink.0.wrapping_add(len as u64 + t.is_empty() as u64);
    for i in probe_indices(len, c, es) {
        if let Some(v) = fold!(st, t.get(i)) {
            let _ = write!(st.sink, "{:?}", v);
        }
    }
    drive(t.iter(), bound, what, st, |_, _| {});
}

fn note_items<E: EndianParse>(it: NoteIterator<'_, E>, bound: u64, st: &mut WalkStats) {
    st.flags |= F_NOTES;
    drive(it, bound, "NoteIterator", st, |n, st| {
        let _ = write!(st.sink, "{:?}", n);
        match n {
        Note::GnuAbiTag(t) => st.sink.0 = st.sink.0.wrapping_add(t.os as u64 + t.major as u64),
        Note::GnuBuildId(b) => st.sink.0 = st.sink.0.wrapping_add(b.0.len() as u64),
        Note::Unknown(a) => {
            st.sink.0 = st.sink.0.wrapping_add(a.n_type ^ a.desc.len() as u64);
            match a.name_str() {
                Ok(s) => st.sink.0 = st.sink.0.wrapping_add(s.len() as u64),
                Err(e) => absorb(&e, st),
            }
        }
        }
    });
}

fn strtab_probe(t: &StringTable<'_>, len: usize, c: &mut Choice, st: &mut WalkStats) {
    st.flags |= F_STRTAB;
    for off in [0usize, 1, len.wrapping_sub(1), len, len.wrapping_add(1), usize::MAX, c.below(len as u64 + 2) as usize, c.val(64) as usize] {
        if let Some(s) = fold!(st, t.get_raw(off)) {
            st.sink.0 = st.sink.0.wrapping_add(s.len() as u64);
        }
        if let Some(s) = fold!(st, t.get(off)) {
            st.sink.0 = st.sink.0.wrapping_add(s.len() as u64);
        }
    }
}

fn sec_calls<E: EndianParse>(f: &ElfBytes<'_, E>, s: &SectionHeader, c: &mut Choice, st: &mut WalkStats, n: u64) {
    if let Some((d, ch)) = fold!(st, f.section_data(s)) {
        st.sink.0 = st.sink.0.wrapping_add(d.len() as u64);
        if let Some(ch) = ch {
            let _ = write!(st.sink, "{:?}", ch);
        }
    }
    if let Some(t) = fold!(st, f.section_data_as_strtab(s)) {
        strtab_probe(&t, s.sh_size as usize, c, st);
    }
    if let Some(mut it) = fold!(st, f.section_data_as_rels(s)) {
        let _ = it.size_hint();
        let _ = it.nth(c.below(3) as usize);
        let _ = it.nth(*c.pick(&[usize::MAX, usize::MAX / 8, 1usize << 61, 70_000]));
        let _ = it.next();
        let _ = it.next();
    }
    if let Some(mut it) = fold!(st, f.section_data_as_relas(s)) {
        let _ = it.size_hint();
        let _ = it.nth(c.below(3) as usize);
        let _ = it.nth(*c.pick(&[usize::MAX, usize::MAX / 24, 1usize << 60, 70_000]));
        let _ = it.next();
        let _ = it.next();
    }
    if let Some(it) = fold!(st, f.section_data_as_rels(s)) {
        st.flags |= F_RELS;
        drive(it, n, "RelIterator", st, |r, st| st.sink.0 = st.sink.0.wrapping_add(r.r_offset ^ r.r_sym as u64));
    }
    if let Some(it) = fold!(st, f.section_data_as_relas(s)) {
        st.flags |= F_RELS;
        drive(it, n, "RelaIterator", st, |r, st| st.sink.0 = st.sink.0.wrapping_add(r.r_offset ^ r.r_addend as u64));
    }
    if let Some(it) = fold!(st, f.section_data_as_notes(s)) {
        note_items(it, n, st);
    }
    // the provided Iterator methods called DIRECTLY on the concrete note iterator (an override would be picked here)
    if s.sh_size <= 4096 {
        if let Some(it) = fold!(st, f.section_data_as_notes(s)) {
            st.sink.0 = st.sink.0.wrapping_add(it.last().is_some() as u64);
        }
        if let Some(it) = fold!(st, f.section_data_as_notes(s)) {
            st.sink.0 = st.sink.0.wrapping_add(it.count() as u64);
        }
        if let Some(mut it) = fold!(st, f.section_data_as_notes(s)) {
            let _ = it.size_hint();
            let _ = it.nth(c.below(3) as usize);
            let _ = it.nth(usize::MAX);
            let _ = it.next();
        }
    }
}

fn seg_calls<E: EndianParse>(f: &ElfBytes<'_, E>, p: &ProgramHeader, st: &mut WalkStats, n: u64) {
    if let Some(d) = fold!(st, f.segment_data(p)) {
        st.sink.0 = st.sink.0.wrapping_add(d.len() as u64);
    }
    if let Some(it) = fold!(st, f.segment_data_as_notes(p)) {
        note_items(it, n, st);
    }
}

fn sym_use(s: &Symbol, st: &mut WalkStats) {
    st.sink.0 = st.sink.0.wrapping_add(s.st_bind() as u64 + s.st_symtype() as u64 + s.st_vis() as u64 + s.is_undefined() as u64).wrapping_add(s.st_value);
}

fn hash_finds<'d, E: EndianParse>(sysv: Option<&SysVHashTable<'d, E>>, gnu: Option<&GnuHashTable<'d, E>>, syms: &SymbolTable<'d, E>, strs: &StringTable<'d>, strs_len: usize, c: &mut Choice<'d>, st: &mut WalkStats) {
    // names of 127, 128, 200 and 4096 bytes (fixed-size stack buffers in a lookup path end somewhere)
    const LONG: [u8; 4096] = [b'n'; 4096];
    for k in 0..8 {
        let name: &[u8] = match k {
            0 => b"",
            1 => b"memset",
            6 => &LONG[..*c.pick(&[127usize, 128, 129, 200, 255, 256, 257, 1024, 4096])],
            7 => b"memset\0",
            2 | 3 => match strs.get_raw(c.below(strs_len as u64 + 1) as usize) {
                Ok(s) => s,
                Err(_) => b"x",
            },
            _ => {
                let l = c.below(9) as usize;
                c.take(l)
            }
        };
        if let Some(h) = sysv {
            st.flags |= F_SYSV_FIND;
            if let Some(Some((i, s))) = fold!(st, h.find(name, syms, strs)) {
                st.flags |= F_FIND_HIT;
                st.sink.0 = st.sink.0.wrapping_add(i as u64);
                sym_use(&s, st);
            }
        }
        if let Some(h) = gnu {
            st.flags |= F_GNU_FIND;
            if let Some(Some((i, s))) = fold!(st, h.find(name, syms, strs)) {
                st.flags |= F_FIND_HIT;
                st.sink.0 = st.sink.0.wrapping_add(i as u64);
                sym_use(&s, st);
            }
        }
    }
}

fn symver_queries<E: EndianParse + core::fmt::Debug>(t: &SymbolVersionTable<'_, E>, nsyms: usize, c: &mut Choice, st: &mut WalkStats, n: u64) {
    st.flags |= F_SYMVER;
    for i in [0usize, 1, 2, 3, nsyms.wrapping_sub(1), nsyms, usize::MAX, c.below(nsyms as u64 + 2) as usize, c.val(64) as usize] {
        if let Some(Some(r)) = fold!(st, t.get_requirement(i)) {
            let _ = write!(st.sink, "{:?}", r);
            st.flags |= F_REQ_HIT;
            st.sink.0 = st.sink.0.wrapping_add(r.file.len() as u64 + r.name.len() as u64 + r.hash as u64 + r.flags as u64 + r.hidden as u64);
        }
        if let Some(Some(d)) = fold!(st, t.get_definition(i)) {
            if n <= 4096 {
                let _ = write!(st.sink, "{:?}", d);
            }
            st.flags |= F_DEF_HIT;
            st.sink.0 = st.sink.0.wrapping_add(d.hash as u64 + d.flags as u64 + d.hidden as u64);
            drive(d.names, n, "SymbolNamesIterator", st, |nm, st| match nm {
                Ok(s) => st.sink.0 = st.sink.0.wrapping_add(s.len() as u64),
                Err(e) => absorb(&e, st),
            });
        }
    }
}

const SH_TYPES: [u32; 16] = [0, 1, 2, 3, 4, 5, 6, 7, 8, 9, 11, 0x6ffffff6, 0x6ffffffd, 0x6ffffffe, 0x6fffffff, 0xffffffff];

fn deep<'d, E: EndianParse + core::fmt::Debug>(f: &ElfBytes<'d, E>, data: &'d [u8], c: &mut Choice<'d>, st: &mut WalkStats) {
    st.flags |= F_OPENED;
    let n = data.len() as u64;
    let _ = write!(st.sink, "{:?}", f.ehdr);
    let class = f.ehdr.class;
    let (shsz, phsz) = if class == Class::ELF64 { (64, 56) } else { (40, 32) };
    if let Some(ph) = f.segments() {
        st.flags |= F_SEGMENTS;
        table_probe(&ph, phsz, c, st, n, "SegmentTable::iter");
        let len = ph.len();
        for k in 0..len.min(5) {
            let i = if k < 3 { k } else { c.idx(len) };
            if let Some(p) = fold!(st, ph.get(i)) {
                seg_calls(f, &p, st, n);
            }
        }
    }
    if let Some(sh) = f.section_headers() {
        st.flags |= F_SECTIONS;
        table_probe(&sh, shsz, c, st, n, "SectionHeaderTable::iter");
        let len = sh.len();
        for k in 0..len.min(10) {
            let i = if k < 4 { k } else { c.idx(len) };
            if let Some(s) = fold!(st, sh.get(i)) {
                sec_calls(f, &s, c, st, n);
            }
        }
    }
    if let Some((Some(sh), Some(strs))) = fold!(st, f.section_headers_with_strtab()) {
        let len = sh.len();
        for k in 0..len.min(6) {
            if let Some(s) = fold!(st, sh.get(k)) {
                if let Some(nm) = fold!(st, strs.get(s.sh_name as usize)) {
                    // look the section up again by its own name
                    if let Some(Some(h)) = fold!(st, f.section_header_by_name(nm)) {
                        st.sink.0 = st.sink.0.wrapping_add(h.sh_offset);
                    }
                }
            }
        }
    }
    // many by-name lookups on this one handle (a handle must not start to behave differently after some number of calls)
    for k in 0..70 {
        let name = [".text", ".dynsym", ".nosuch", ".shstrtab", ""][k % 5];
        if let Some(Some(h)) = fold!(st, f.section_header_by_name(name)) {
            st.sink.0 = st.sink.0.wrapping_add(h.sh_offset);
        }
    }
    for k in 0..4 {
        let name: &str = match k {
            0 => ".dynsym",
            1 => "",
            2 => ".shstrtab",
            _ => {
                let l = c.below(8) as usize;
                core::str::from_utf8(c.take(l)).unwrap_or(".note")
            }
        };
        if let Some(Some(h)) = fold!(st, f.section_header_by_name(name)) {
            st.sink.0 = st.sink.0.wrapping_add(h.sh_size);
        }
    }
    // an existing name with its first one or two bytes replaced by a two-byte character (byte-offset arithmetic on
    // names must respect character boundaries); built in a stack buffer, the walk stays allocation-free
    if let Some((Some(sh), Some(strs))) = fold!(st, f.section_headers_with_strtab()) {
        for k in 0..sh.len().min(4) {
            if let Some(h) = fold!(st, sh.get(k)) {
                if let Ok(nm) = strs.get_raw(h.sh_name as usize) {
                    for drop in 1..5usize {
                        let mut buf = [0u8; 48];
                        if nm.len() > drop && nm.len() + 2 <= buf.len() {
                            buf[0] = 0xc3;
                            buf[1] = 0xa9;
                            let l = nm.len() - drop;
                            buf[2..2 + l].copy_from_slice(&nm[drop..]);
                            if let Ok(q) = core::str::from_utf8(&buf[..2 + l]) {
                                let _ = fold!(st, f.section_header_by_name(q));
                            }
                        }
                    }
                }
            }
        }
    }
    // names that tools treat specially (name-specific code paths: debug sections and their legacy compressed
    // spelling, the usual linker-made sections)
    const WELL_KNOWN: [&str; 28] = [".debug_info", ".debug_str", ".debug_line", ".zdebug_info", ".debug_", ".text", ".data", ".bss", ".rodata", ".symtab", ".strtab", ".shstrtab", ".dynsym", ".dynstr", ".dynamic", ".hash", ".gnu.hash", ".gnu.version", ".gnu.version_r", ".gnu.version_d", ".note.gnu.build-id", ".note.ABI-tag", ".rela.dyn", ".rel.plt", ".comment", ".eh_frame", ".interp", ".gnu_debuglink"];
    for _ in 0..3 {
        let name = WELL_KNOWN[c.idx(WELL_KNOWN.len())];
        if let Some(Some(h)) = fold!(st, f.section_header_by_name(name)) {
            st.sink.0 = st.sink.0.wrapping_add(h.sh_size);
        }
    }
    // fabricated headers (all fields are public)
    for _ in 0..2 {
        st.flags |= F_FABRICATED;
        let s = SectionHeader {
            sh_name: c.val(32) as u32,
            sh_type: *c.pick(&SH_TYPES),
            sh_flags: if c.chance(60) { 0x800 } else { c.val(64) },
            sh_addr: 0,
            sh_offset: verif_model::filegen::boundary_for(c, data.len(), 0),
            sh_size: verif_model::filegen::boundary_for(c, data.len(), 0),
            sh_link: c.val(32) as u32,
            sh_info: c.val(32) as u32,
            sh_addralign: c.val(64),
            sh_entsize: c.val(64),
        };
        sec_calls(f, &s, c, st, n);
        let p = ProgramHeader { p_type: *c.pick(&[0u32, 1, 2, 4, 0xffffffff]), p_offset: verif_model::filegen::boundary_for(c, data.len(), 0), p_vaddr: 0, p_paddr: 0, p_filesz: verif_model::filegen::boundary_for(c, data.len(), 0), p_memsz: c.val(64), p_flags: 0, p_align: c.val(64) };
        seg_calls(f, &p, st, n);
    }
    let empty_syms = SymbolTable::new(f.ehdr.endianness, class, &data[..0]);
    let empty_strs = StringTable::new(&data[..0]);
    if data.len() <= 2048 && c.chance(24) {
        let _ = write!(st.sink, "{:?}", f);
        let _ = write!(st.sink, "{:?}{:?}", f.segments(), f.section_headers());
    }
    if let Some(cd) = fold!(st, f.find_common_data()) {
        st.flags |= F_COMMON;
        if data.len() <= 2048 && c.chance(40) {
            let _ = write!(st.sink, "{:?}", cd);
        }
        let symsz = if class == Class::ELF64 { 24 } else { 16 };
        if let Some(t) = &cd.symtab {
            st.flags |= F_SYMTAB;
            table_probe(t, symsz, c, st, n, "SymbolTable::iter");
        }
        if let Some(t) = &cd.dynsyms {
            st.flags |= F_SYMTAB;
            table_probe(t, symsz, c, st, n, "SymbolTable::iter");
        }
        if let Some(t) = &cd.symtab_strs {
            strtab_probe(t, data.len(), c, st);
        }
        if let Some(t) = &cd.dynamic {
            st.flags |= F_DYNAMIC;
            table_probe(t, symsz, c, st, n, "DynamicTable::iter");
        }
        if let Some(g) = &cd.gnu_hash {
            let _ = write!(st.sink, "{:?}", g.hdr);
        }
        let syms = cd.dynsyms.as_ref().or(cd.symtab.as_ref()).unwrap_or(&empty_syms);
        let strs = cd.dynsyms_strs.as_ref().or(cd.symtab_strs.as_ref()).unwrap_or(&empty_strs);
        if cd.sysv_hash.is_some() || cd.gnu_hash.is_some() {
            hash_finds(cd.sysv_hash.as_ref(), cd.gnu_hash.as_ref(), syms, strs, 64, c, st);
        }
    }
    if let Some(Some(t)) = fold!(st, f.dynamic()) {
        st.flags |= F_DYNAMIC;
        drive(t.iter(), n, "DynamicTable::iter", st, |d, st| st.sink.0 = st.sink.0.wrapping_add(d.d_tag as u64 ^ d.d_val() ^ d.d_ptr()));
    }
    if let Some(Some((t, s))) = fold!(st, f.symbol_table()) {
        st.flags |= F_SYMTAB;
        drive(t.iter(), n, "SymbolTable::iter", st, |y, st| {
            sym_use(&y, st);
            if let Ok(nm) = s.get_raw(y.st_name as usize) {
                st.sink.0 = st.sink.0.wrapping_add(nm.len() as u64);
            }
        });
    }
    let mut nsyms = 0usize;
    if let Some(Some((t, s))) = fold!(st, f.dynamic_symbol_table()) {
        st.flags |= F_SYMTAB;
        nsyms = t.len();
        drive(t.iter(), n, "SymbolTable::iter", st, |y, st| {
            sym_use(&y, st);
            if let Ok(nm) = s.get(y.st_name as usize) {
                st.sink.0 = st.sink.0.wrapping_add(nm.len() as u64);
            }
        });
    }
    if let Some(Some(t)) = fold!(st, f.symbol_version_table()) {
        symver_queries(&t, nsyms, c, st, n);
    }
}

fn shallow<E: EndianParse>(data: &[u8], st: &mut WalkStats) {
    match ElfBytes::<E>::minimal_parse(data) {
        Ok(f) => {
            st.sink.0 = st.sink.0.wrapping_add(f.segments().map(|t| t.len()).unwrap_or(0) as u64 + f.section_headers().map(|t| t.len()).unwrap_or(0) as u64);
            if let Some(x) = fold!(st, f.section_headers_with_strtab()) {
                st.sink.0 = st.sink.0.wrapping_add(x.1.is_some() as u64);
            }
        }
        Err(e) => absorb(&e, st),
    }
}

macro_rules! standalone_type {
    ($t:ty, $e:expr, $class:expr, $data:expr, $offs:expr, $c:expr, $st:expr, $what:expr) => {{
        let es = <$t as ParseAt>::size_for($class);
        $st.sink.0 = $st.sink.0.wrapping_add(es as u64);
        for off in $offs {
            let mut o = off;
            if let Some(v) = fold!($st, <$t as ParseAt>::parse_at($e, $class, &mut o, $data)) {
                $st.flags |= F_DEEP_STANDALONE;
                let _ = write!($st.sink, "{:?}", v);
            }
        }
        let _ = fold!($st, <$t as ParseAt>::validate_entsize($class, $c.val(64) as usize));
        let _ = fold!($st, <$t as ParseAt>::validate_entsize($class, es));
        let t = ParsingTable::<_, $t>::new($e, $class, $data);
        table_probe(&t, es, $c, $st, $data.len() as u64, $what);
        let it = ParsingIterator::<_, $t>::new($e, $class, $data);
        drive(it, $data.len() as u64, $what, $st, |_, _| {});
        poke(|| ParsingIterator::<_, $t>::new($e, $class, $data), $c, $st, $data.len() as u64);
        poke(|| ParsingTable::<_, $t>::new($e, $class, $data).into_iter(), $c, $st, $data.len() as u64);
    }};
}

const ALIGNS: [usize; 12] = [0, 1, 2, 3, 4, 8, 16, 1 << 31, 1 << 63, usize::MAX, usize::MAX - 1, 12];
const COUNTS64: [u64; 8] = [0, 1, 2, 3, 0xffff, 0xffff_ffff, u64::MAX, 1 << 63];
const COUNTS16: [u16; 6] = [0, 1, 2, 3, 0x7fff, 0xffff];

fn sub<'d>(data: &'d [u8], c: &mut Choice) -> &'d [u8] {
    let len = data.len();
    match c.below(4) {
        0 => data,
        1 => &data[..c.below(len as u64 + 1) as usize],
        2 => &data[c.below(len as u64 + 1) as usize..],
        _ => {
            let a = c.below(len as u64 + 1) as usize;
            let b = a + c.below((len - a) as u64 + 1) as usize;
            &data[a..b]
        }
    }
}

pub fn standalone<'d>(data: &'d [u8], c: &mut Choice<'d>, st: &mut WalkStats) {
    let e = if c.bool() { AnyEndian::Big } else { AnyEndian::Little };
    let class = if c.bool() { Class::ELF64 } else { Class::ELF32 };
    let len = data.len();
    let offs = [0usize, c.below(len as u64 + 2) as usize, len, len.wrapping_sub(c.below(70) as usize), usize::MAX, usize::MAX - c.below(9) as usize, c.val(64) as usize];
    standalone_type!(SectionHeader, e, class, data, offs, c, st, "ParsingIterator<SectionHeader>");
    standalone_type!(ProgramHeader, e, class, data, offs, c, st, "ParsingIterator<ProgramHeader>");
    standalone_type!(Symbol, e, class, data, offs, c, st, "ParsingIterator<Symbol>");
    standalone_type!(Rel, e, class, data, offs, c, st, "ParsingIterator<Rel>");
    standalone_type!(Rela, e, class, data, offs, c, st, "ParsingIterator<Rela>");
    standalone_type!(Dyn, e, class, data, offs, c, st, "ParsingIterator<Dyn>");
    standalone_type!(CompressionHeader, e, class, data, offs, c, st, "ParsingIterator<CompressionHeader>");
    standalone_type!(NoteGnuAbiTag, e, class, data, offs, c, st, "ParsingIterator<NoteGnuAbiTag>");
    standalone_type!(SysVHashHeader, e, class, data, offs, c, st, "ParsingIterator<SysVHashHeader>");
    standalone_type!(GnuHashHeader, e, class, data, offs, c, st, "ParsingIterator<GnuHashHeader>");
    standalone_type!(VersionIndex, e, class, data, offs, c, st, "ParsingIterator<VersionIndex>");
    standalone_type!(VerDef, e, class, data, offs, c, st, "ParsingIterator<VerDef>");
    standalone_type!(VerDefAux, e, class, data, offs, c, st, "ParsingIterator<VerDefAux>");
    standalone_type!(VerNeed, e, class, data, offs, c, st, "ParsingIterator<VerNeed>");
    standalone_type!(VerNeedAux, e, class, data, offs, c, st, "ParsingIterator<VerNeedAux>");
    standalone_type!(u32, e, class, data, offs, c, st, "ParsingIterator<u32>");
    standalone_type!(u64, e, class, data, offs, c, st, "ParsingIterator<u64>");
    // ident on buffers of every length 0..=20
    for k in 0..=len.min(20) {
        if k < 16 {
            st.flags |= F_IDENT_SHORT;
        }
        if let Some(id) = fold!(st, elf::file::parse_ident::<AnyEndian>(&data[..k])) {
            st.sink.0 = st.sink.0.wrapping_add(id.2 as u64);
            if let Some(h) = fold!(st, FileHeader::parse_tail(id, &data[k..])) {
                st.flags |= F_DEEP_STANDALONE;
                let _ = write!(st.sink, "{:?}", h);
            }
        }
        let _ = fold!(st, elf::file::parse_ident::<LittleEndian>(&data[..k]));
        let _ = fold!(st, elf::file::parse_ident::<BigEndian>(&data[..k]));
    }
    if let Some(h) = fold!(st, FileHeader::parse_tail((e, class, c.u8(), c.u8()), sub(data, c))) {
        let _ = write!(st.sink, "{:?}", h);
    }
    for off in offs {
        let mut o = off;
        let _ = fold!(st, e.parse_u8_at(&mut o, data));
        let _ = fold!(st, e.parse_u16_at(&mut o, data));
        let _ = fold!(st, e.parse_u32_at(&mut o, data));
        let _ = fold!(st, e.parse_u64_at(&mut o, data));
        let _ = fold!(st, e.parse_i32_at(&mut o, data));
        let _ = fold!(st, e.parse_i64_at(&mut o, data));
        let mut o = off;
        let _ = fold!(st, LittleEndian.parse_u64_at(&mut o, data));
        let _ = fold!(st, BigEndian.parse_i32_at(&mut o, data));
        let _ = fold!(st, NativeEndian.parse_u16_at(&mut o, data));
    }
    let b = c.u8();
    let _ = fold!(st, AnyEndian::from_ei_data(b));
    let _ = fold!(st, LittleEndian::from_ei_data(b));
    let _ = fold!(st, BigEndian::from_ei_data(b));
    // values every caller can make without a file: the Default impls
    let dstr = StringTable::default();
    let _ = fold!(st, dstr.get(c.below(3) as usize));
    let _ = fold!(st, dstr.get_raw(if c.bool() { 0 } else { c.val(64) as usize }));
    let _ = write!(st.sink, "{:?}{:?}", elf::CommonElfData::<AnyEndian>::default(), dstr);
    for off in offs {
        let mut o = off;
        let _ = fold!(st, AnyEndian::default().parse_u32_at(&mut o, data));
        let _ = fold!(st, LittleEndian::default().parse_u16_at(&mut o, data));
        let _ = fold!(st, BigEndian::default().parse_u64_at(&mut o, data));
    }
    let strs = StringTable::new(sub(data, c));
    strtab_probe(&strs, len, c, st);
    let nd = sub(data, c);
    for _ in 0..3 {
        let align = if c.bool() { *c.pick(&ALIGNS) } else { c.val(64) as usize };
        note_items(NoteIterator::new(e, class, align, nd), nd.len() as u64, st);
        poke(|| NoteIterator::new(e, class, align, nd), c, st, nd.len() as u64);
    }
    // hash tables on arbitrary bytes with independently chosen symbol/string tables
    let hd = sub(data, c);
    let syms = SymbolTable::new(e, class, sub(data, c));
    let sv = fold!(st, SysVHashTable::new(e, class, hd));
    let mut gn = fold!(st, GnuHashTable::new(e, class, hd));
    if len <= 2048 {
        let _ = write!(st.sink, "{:?}{:?}{:?}{:?}", sv, gn, strs, syms.len());
    }
    if sv.is_some() || gn.is_some() {
        st.flags |= F_DEEP_STANDALONE;
        hash_finds(sv.as_ref(), gn.as_ref(), &syms, &strs, len, c, st);
    }
    if let Some(mut g) = gn {
        // `hdr` is a public field: a caller may set it to anything
        g.hdr = GnuHashHeader { nbucket: c.val(32) as u32, table_start_idx: c.val(32) as u32, nbloom: c.val(32) as u32, nshift: c.val(32) as u32 };
        let _ = fold!(st, g.find(b"memset", &syms, &strs));
        g.hdr.nbloom = 0;
        let _ = fold!(st, g.find(b"", &syms, &strs));
        gn = Some(g);
    }
    let hl = len.min(4096);
    st.sink.0 = st.sink.0.wrapping_add(sysv_hash(&data[..hl]) as u64 + gnu_hash(&data[..hl]) as u64);
    // names that saturate the running hash value (stack buffer: the walk stays allocation-free)
    let mut nm = [0u8; 14];
    let fillb = *c.pick(&[0x0fu8, 0xff, 0x1f, 0x7f, 0xef]);
    let k = 5 + c.below(5) as usize;
    for b in nm.iter_mut().take(k) {
        *b = fillb;
    }
    nm[k] = c.u8();
    nm[k + 1] = c.u8();
    st.sink.0 = st.sink.0.wrapping_add(sysv_hash(&nm[..k + 2]) as u64 + gnu_hash(&nm[..k + 2]) as u64);
    if let Some(h) = &sv {
        let _ = fold!(st, h.find(&nm[..k + 2], &syms, &strs));
    }
    if let Some(h) = &gn {
        let _ = fold!(st, h.find(&nm[..k + 2], &syms, &strs));
    }
    // version iterators with absurd counts and starting offsets
    st.flags |= F_VERITER;
    let vd = sub(data, c);
    let vlen = vd.len() as u64;
    for _ in 0..2 {
        let count = if c.bool() { *c.pick(&COUNTS64) } else { c.val(64) };
        let start = *c.pick(&[0usize, 1, 16, 20, usize::MAX, usize::MAX - 19]);
        let start = if c.bool() { start } else { c.below(vlen + 2) as usize };
        drive(VerDefIterator::new(e, class, count, start, vd), count.min(vlen), "VerDefIterator", st, |(v, aux), st| {
            let cnt = v.vd_cnt as u64;
            st.sink.0 = st.sink.0.wrapping_add(v.vd_hash as u64);
            drive(aux, cnt.min(vlen), "VerDefAuxIterator", st, |a, st| st.sink.0 = st.sink.0.wrapping_add(a.vda_name as u64));
        });
        drive(VerNeedIterator::new(e, class, count, start, vd), count.min(vlen), "VerNeedIterator", st, |(v, aux), st| {
            let cnt = v.vn_cnt as u64;
            st.sink.0 = st.sink.0.wrapping_add(v.vn_file as u64);
            drive(aux, cnt.min(vlen), "VerNeedAuxIterator", st, |a, st| st.sink.0 = st.sink.0.wrapping_add(a.vna_name as u64));
        });
        if vlen <= 2048 {
            let _ = write!(st.sink, "{:?}{:?}", VerDefIterator::new(e, class, count, start, vd), VerNeedIterator::new(e, class, count, start, vd));
            let mut a = VerDefIterator::new(e, class, count, start, vd);
            let mut b = VerNeedIterator::new(e, class, count, start, vd);
            for _ in 0..1 + c.below(3) {
                if let Some((_, aux)) = a.next() {
                    let _ = write!(st.sink, "{:?}", aux);
                }
                if let Some((_, aux)) = b.next() {
                    let _ = write!(st.sink, "{:?}", aux);
                }
            }
            let _ = write!(st.sink, "{:?}{:?}", a, b);
        }
        poke(|| VerDefIterator::new(e, class, count, start, vd), c, st, vlen);
        poke(|| VerNeedIterator::new(e, class, count, start, vd), c, st, vlen);
        let c16 = if c.bool() { *c.pick(&COUNTS16) } else { c.u16() };
        if vlen <= 2048 {
            let _ = write!(st.sink, "{:?}{:?}", VerDefAuxIterator::new(e, class, c16, start, vd), VerNeedAuxIterator::new(e, class, c16, start, vd));
        }
        poke(|| VerDefAuxIterator::new(e, class, c16, start, vd), c, st, vlen);
        poke(|| VerNeedAuxIterator::new(e, class, c16, start, vd), c, st, vlen);
        drive(VerDefAuxIterator::new(e, class, c16, start, vd), (c16 as u64).min(vlen), "VerDefAuxIterator", st, |a, st| st.sink.0 = st.sink.0.wrapping_add(a.vda_name as u64));
        drive(VerNeedAuxIterator::new(e, class, c16, start, vd), (c16 as u64).min(vlen), "VerNeedAuxIterator", st, |a, st| st.sink.0 = st.sink.0.wrapping_add(a.vna_hash as u64));
        drive(SymbolNamesIterator::new(VerDefAuxIterator::new(e, class, c16, start, vd), &strs), (c16 as u64).min(vlen), "SymbolNamesIterator", st, |r, st| {
            if let Err(e) = r {
                absorb(&e, st)
            }
        });
    }
    // a version table assembled from independently chosen parts
    let ids = VersionIndexTable::new(e, class, sub(data, c));
    let nids = ids.len();
    let needs = if c.chance(200) { Some((VerNeedIterator::new(e, class, *c.pick(&COUNTS64), 0, sub(data, c)), strs)) } else { None };
    let defs = if c.chance(200) { Some((VerDefIterator::new(e, class, *c.pick(&COUNTS64), 0, sub(data, c)), strs)) } else { None };
    let t = SymbolVersionTable::new(ids, needs, defs);
    if len <= 2048 {
        let _ = write!(st.sink, "{:?}", t);
    }
    let _ = write!(st.sink, "{:?}", NoteIterator::new(e, class, 4, &data[..len.min(64)]));
    symver_queries(&t, nids, c, st, len as u64);
    // helpers
    let v = VersionIndex(c.u16());
    st.sink.0 = st.sink.0.wrapping_add(v.index() as u64 + v.is_hidden() as u64 + v.is_local() as u64 + v.is_global() as u64);
    let x32 = c.val(32) as u32;
    let x16 = x32 as u16;
    let x8 = x32 as u8;
    use elf::to_str as ts;
    let mut acc = 0usize;
    for s in [ts::e_osabi_to_str(x8), ts::e_type_to_human_str(x16), ts::e_type_to_str(x16), ts::e_machine_to_human_str(x16), ts::e_machine_to_str(x16), ts::sh_type_to_str(x32), ts::p_type_to_str(x32), ts::st_symtype_to_str(x8), ts::st_bind_to_str(x8), ts::st_vis_to_str(x8), ts::ch_type_to_str(x32), ts::note_abi_tag_os_to_str(x32), ts::d_tag_to_str(c.val(64) as i64)] {
        acc += s.map(|s| s.len()).unwrap_or(0);
    }
    st.sink.0 = st.sink.0.wrapping_add(acc as u64);
}

/// The whole walk: open under every spec, deep walk under AnyEndian, then the stand-alone parsers.
pub fn walk<'d>(data: &'d [u8], c: &mut Choice<'d>, st: &mut WalkStats) {
    shallow::<LittleEndian>(data, st);
    shallow::<BigEndian>(data, st);
    match ElfBytes::<AnyEndian>::minimal_parse(data) {
        Ok(f) => deep(&f, data, c, st),
        Err(e) => absorb(&e, st),
    }
    // the deep walk once more under the matching fixed spec (generic code paths are monomorphised per spec)
    if c.chance(64) {
        if let Ok(f) = ElfBytes::<LittleEndian>::minimal_parse(data) {
            deep(&f, data, c, st)
        } else if let Ok(f) = ElfBytes::<BigEndian>::minimal_parse(data) {
            deep(&f, data, c, st)
        }
    }
    standalone(data, c, st);
}
