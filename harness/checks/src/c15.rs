//! C15 — string-table lookup returns exactly the NUL-terminated string at the offset.
use crate::common::*;
use elf::string_table::StringTable;

fn check(table: &[u8], off: usize, obs: &mut Obs) -> Result<(), String> {
    let st = StringTable::new(table);
    let raw = st.get_raw(off);
    let s = st.get(off);
    let ctx = || format!("table={} [len {}] offset={}", hex(&table[..table.len().min(64)]), table.len(), off);
    // reference: NUL scan
    let want: Option<&[u8]> = if off < table.len() { table[off..].iter().position(|b| *b == 0).map(|p| &table[off..off + p]) } else { None };
    match (&raw, want) {
        (Ok(g), Some(w)) => {
            if *g != w {
                return Err(format!("{}: get_raw returned {:?}, reference {:?}", ctx(), g, w));
            }
            if g.as_ptr() as usize != table.as_ptr() as usize + off {
                return Err(format!("{}: get_raw returned a slice that does not start at table+offset", ctx()));
            }
            obs.label("found");
            match (std::str::from_utf8(w), &s) {
                (Ok(ws), Ok(gs)) => {
                    if *gs != ws {
                        return Err(format!("{}: get returned {:?}, reference {:?}", ctx(), gs, ws));
                    }
                    obs.label_if(!ws.is_ascii(), "multibyte_utf8");
                }
                (Err(_), Err(_)) => obs.label("invalid_utf8"),
                (Ok(ws), Err(e)) => return Err(format!("{}: get returned Err({}) although the string {:?} is valid UTF-8", ctx(), err_name(e), ws)),
                (Err(_), Ok(gs)) => return Err(format!("{}: get returned Ok({:?}) for bytes that are not valid UTF-8", ctx(), gs)),
            }
            obs.label_if(w.is_empty(), "empty_string");
            obs.label_if(off + w.len() + 1 == table.len(), "last_string");
            if off > 0 {
                obs.nontrivial();
            }
        }
        (Err(e), None) => {
            if !matches!(e, ParseError::BadOffset(_) | ParseError::StringTableMissingNul(_)) {
                return Err(format!("{}: get_raw failed with {} (expected BadOffset or StringTableMissingNul)", ctx(), err_name(e)));
            }
            if s.is_ok() {
                return Err(format!("{}: get_raw failed but get returned Ok({:?})", ctx(), s.as_ref().unwrap()));
            }
            obs.label_if(off < table.len(), "missing_nul");
            obs.label_if(off == table.len(), "offset_eq_len");
            obs.label_if(off > table.len(), "offset_beyond");
            obs.nontrivial();
        }
        (Ok(g), None) => return Err(format!("{}: get_raw returned Ok({:?}) but no NUL-terminated string starts there", ctx(), g)),
        (Err(e), Some(w)) => return Err(format!("{}: get_raw returned Err({}) but the string {:?} is there", ctx(), err_name(e), w)),
    }
    obs.describe(|| json!({"table_hex": hex(&table[..table.len().min(64)]), "table_len": table.len(), "offset": off, "get_raw": match want { Some(w) => format!("Ok({})", hex(&w[..w.len().min(32)])), None => "Err".into() }}));
    Ok(())
}

/// plain encoding: [offset, table bytes...]
fn oracle_small(case: &[u8], obs: &mut Obs) -> Result<(), String> {
    if case.is_empty() {
        return Ok(());
    }
    // the table at every address residue modulo 8 (word-at-a-time scanners treat an unaligned front separately)
    let mut buf = vec![0xAAu8; 8];
    buf.extend_from_slice(&case[1..]);
    let base = buf.as_ptr() as usize % 8;
    for lead in 0..8 {
        let start = (8 + lead - base) % 8;
        buf.truncate(0);
        buf.resize(start, 0xAA);
        buf.extend_from_slice(&case[1..]);
        check(&buf[start..], case[0] as usize, obs)?;
    }
    Ok(())
}

fn enum_small(shard: usize, nshards: usize, _t: Tier, emit: &mut dyn FnMut(&[u8]) -> bool) {
    const ALPHA: [u8; 4] = [0, b'a', 0xC3, 0xA9];
    let mut n = 0usize;
    for len in 0..=7usize {
        for code in 0..(1usize << (2 * len)) {
            n += 1;
            if n % nshards != shard {
                continue;
            }
            let mut c = vec![0u8; len + 1];
            for i in 0..len {
                c[i + 1] = ALPHA[(code >> (2 * i)) & 3];
            }
            for off in 0..len + 3 {
                c[0] = off as u8;
                if !emit(&c) {
                    return;
                }
            }
        }
    }
}

fn oracle_random(case: &[u8], obs: &mut Obs) -> Result<(), String> {
    let mut c = Choice::new(case);
    // (a minority of tables is much larger than 4 KiB, with very long NUL-free runs)
    let huge = c.u8() >= 246;
    let len = match c.below(8) {
        _ if huge => 4097 + c.below(200_000) as usize,
        0 => c.below(4) as usize,
        1 | 2 | 3 => c.below(40) as usize,
        4 | 5 => c.below(300) as usize,
        _ => c.below(4097) as usize,
    };
    let nul_density = *c.pick(&[0u32, 2, 8, 32, 128]);
    let style = c.below(5);
    let seed = c.u64();
    let mut t = vec![0u8; len];
    verif_model::choice::fill(seed, &mut t);
    let mut s = seed ^ 0x55;
    for b in t.iter_mut() {
        let r = verif_model::choice::splitmix(&mut s);
        if ((r >> 8) & 0xff) < nul_density as u64 {
            *b = 0;
        } else if style == 0 {
            *b = b'a' + (*b % 26);
        } else if style == 1 && *b == 0 {
            *b = 1;
        } else if style == 3 {
            *b = [1u8, 1, 0x7f, 0x80, 0xff, b'a', 2, 0xfe][(*b % 8) as usize];
        }
    }
    if style == 4 {
        // valid UTF-8 text rich in 2-, 3- and 4-byte characters at every position modulo any block size, few NULs
        // (long valid names whose characters straddle 8/16/32/64-byte boundaries)
        const POOL: [&str; 8] = ["a", "\u{e9}", "\u{20ac}", "\u{1f600}", "b", "\u{df}", "\u{4e2d}", "z"];
        let mut s2 = seed ^ 0xabc;
        let mut v: Vec<u8> = Vec::with_capacity(len + 4);
        while v.len() < len {
            let r = verif_model::choice::splitmix(&mut s2);
            if ((r >> 40) & 0x3ff) < (nul_density as u64) / 8 {
                v.push(0);
                continue;
            }
            let ch = POOL[(r % 8) as usize].as_bytes();
            if v.len() + ch.len() > len {
                v.push(b'a');
            } else {
                v.extend_from_slice(ch);
            }
        }
        t = v;
        obs.label("multibyte_text_table");
    }
    if huge {
        // no NULs except a handful at chosen places: runs of 4096, 65535, 65536 ... bytes before a terminator
        for b in t.iter_mut() {
            if *b == 0 {
                *b = 0x41;
            }
        }
        for _ in 0..1 + c.below(4) {
            let at = match c.below(6) {
                0 => len - 1,
                1 => 65535 + c.below(3) as usize,
                2 => 4095 + c.below(3) as usize,
                3 => (c.below(48) as usize) * 4096 + c.below(3) as usize,
                _ => c.below(len as u64) as usize,
            };
            if at < len {
                t[at] = 0;
            }
        }
    }
    // first few bytes and the final byte directly from the choice sequence
    for i in 0..len.min(6) {
        if c.chance(100) {
            t[i] = c.u8();
        }
    }
    if len > 0 && c.chance(128) {
        t[len - 1] = if c.bool() { 0 } else { c.u8() };
    }
    let off = match c.below(11) {
        0 => len.saturating_sub(1),
        1 => len,
        2 => len + 1,
        3 => usize::MAX - c.below(3) as usize,
        4 => *c.pick(BOUNDARY) as usize,
        5 => 0,
        8 => c.below(10) as usize,
        6 => c.val(64) as usize,
        7 => ((1 + c.below(5)) << 32) as usize | c.below(len as u64 + 1) as usize,
        _ => c.below(len as u64 + 2) as usize,
    };
    // at an arbitrary address residue modulo 16
    let lead = c.below(16) as usize;
    if lead == 0 {
        return check(&t, off, obs);
    }
    let mut buf = vec![0x01u8; lead];
    buf.extend_from_slice(&t);
    obs.label("unaligned_table");
    check(&buf[lead..], off, obs)
}

/// A table of 2^32 + 64 bytes (zero pages, mapped lazily) with strings laid out around byte 2^32.
fn big_table() -> &'static [u8] {
    static B: std::sync::OnceLock<Vec<u8>> = std::sync::OnceLock::new();
    B.get_or_init(|| {
        let mut v = vec![0u8; (1usize << 32) + 64];
        let base = (1usize << 32) - 32;
        for i in 0..96 {
            v[base + i] = if i % 7 == 6 { 0 } else if i % 11 == 3 { 0xC3 } else if i % 11 == 4 { 0xA9 } else { b'a' + (i % 26) as u8 };
        }
        v
    })
}

/// plain encoding: [delta] with offset = 2^32 - 40 + delta
fn oracle_big(case: &[u8], obs: &mut Obs) -> Result<(), String> {
    if case.is_empty() {
        return Ok(());
    }
    check(big_table(), (1usize << 32) - 40 + case[0] as usize, obs)
}

fn enum_big(shard: usize, _n: usize, _t: Tier, emit: &mut dyn FnMut(&[u8]) -> bool) {
    if shard != 0 {
        return;
    }
    for delta in 0..110u8 {
        if !emit(&[delta]) {
            return;
        }
    }
}

pub fn property() -> Property {
    Property {
        id: "C15",
        level: "exploration",
        rule: "cases are (table bytes, offset); oracle = NUL-scan reference: inside the table with a NUL after it -> Ok(exact sub-slice starting at table+offset), otherwise Err of kind BadOffset or StringTableMissingNul; get = from_utf8(get_raw) or Err. small: exhaustive over every table of length 0..7 over the alphabet {NUL,'a',0xC3,0xA9} and every offset 0..len+2. random: proptest choice sequences, tables up to 4 KiB with varying NUL density and alphabets rich in 0x01/0x7f/0x80/0xff or valid UTF-8 text of 1..4-byte characters with few NULs (4% of the tables: 4..200 KiB with a handful of NULs, i.e. NUL-free runs of 4 096, 65 535, 65 536+ bytes), offsets incl. len-1, len, len+1, k*2^32+i, boundary values and usize::MAX; the table starts at every address residue modulo 8 (small) / a chosen residue modulo 16 (random). beyond_4gib: a 2^32+64 byte table (lazily mapped zero pages) with strings laid out around byte 2^32, every offset 2^32-40 .. 2^32+69. Non-trivial: lookup at a non-zero offset that succeeds, or any failing lookup; distinct by case hash.",
        assumptions: &["error kinds are only required to be one of the two the statement names, not a particular one per situation"],
        subs: vec![Sub::enumerated("small", oracle_small, enum_small, true), Sub::new("random", oracle_random, 128, 3_000_000, 40_000_000), Sub::enumerated("beyond_4gib", oracle_big, enum_big, false)],
        extras: vec![crate::fuzz::c15_choice],
    }
}
