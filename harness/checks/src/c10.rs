//! C10 — byte-order specs gate files; ident defects are reported as what they are.
use crate::common::*;
use crate::queries::{self, QR};
use crate::with_endian;
use std::sync::OnceLock;
use verif_model::filegen::{self, RichOpts};

/// base files: for each of the four encodings a bare header and a richer generated file
fn bases() -> &'static Vec<(Enc, Vec<u8>)> {
    static B: OnceLock<Vec<(Enc, Vec<u8>)>> = OnceLock::new();
    B.get_or_init(|| {
        let mut v = vec![];
        for enc in ALL_ENC {
            let h = elfw::Ehdr { ident: elfw::ident(enc, 0, 0), e_type: 2, e_machine: 62, e_version: 1, e_ehsize: elfw::ehdr_size(enc) as u16, ..Default::default() };
            v.push((enc, elfw::enc_bytes(enc, |w| h.write(w))));
        }
        // richer files: search fixed seeds until each encoding has one that opens with sections
        let o = RichOpts { override_chance: 0, corrupt_chance: 0, max_gap: 8, tables_early: false, allow_compressed: false, max_names: 5, shrink_chance: 0, many_sections: false };
        for enc in ALL_ENC {
            let mut seed = 1u64;
            loop {
                let mut bytes = vec![0u8; 600];
                verif_model::choice::fill(seed, &mut bytes);
                let mut c = Choice::new(&bytes);
                let r = filegen::rich_file(&mut c, &o);
                if r.spec.enc == enc && r.built.shdrs.len() >= 6 && elf::ElfBytes::<AnyEndian>::minimal_parse(&r.built.bytes).is_ok() {
                    v.push((enc, r.built.bytes));
                    break;
                }
                seed += 1;
                if seed > 5000 {
                    break;
                }
            }
        }
        v
    })
}

fn spec4(i: u8) -> u8 {
    // 0 LE, 1 BE, 2 Any, 3 Native  -> indices used by with_endian! (2 = AnyEndian::Little stands for Any)
    match i {
        0 => 0,
        1 => 1,
        2 => 2,
        _ => 4,
    }
}
fn spec_accepts(i: u8, data_byte: u8) -> bool {
    match i {
        0 => data_byte == 1,
        1 => data_byte == 2,
        2 => data_byte == 1 || data_byte == 2,
        _ => data_byte == if cfg!(target_endian = "little") { 1 } else { 2 },
    }
}
const SPEC4: [&str; 4] = ["LittleEndian", "BigEndian", "AnyEndian", "NativeEndian"];

fn open_result(spec: u8, parser: u8, data: &[u8], pos0: u64) -> Result<(), ParseError> {
    with_endian!(spec4(spec), |e| match parser {
        0 => open_as(e, data).map(|_| ()),
        1 => {
            // a legal reader: short reads of 1, 7 or 15/3 bytes and/or ErrorKind::Interrupted every third read
            let k = data.len() + pos0 as usize;
            let chunks: Vec<usize> = [vec![], vec![1], vec![7], vec![15, 3]][k % 4].clone();
            let intr = if k % 3 == 0 { 3 } else { 0 };
            open_stream_as(e, verif_model::io::Reader::with(data.to_vec(), chunks, intr, vec![]).at_position(pos0)).map(|_| ())
        }
        _ => {
            fn pi<E: EndianParse>(_e: E, d: &[u8]) -> Result<(), ParseError> {
                elf::file::parse_ident::<E>(d).map(|_| ())
            }
            pi(e, &data[..16.min(data.len())])
        }
    })
}

/// plain encoding: [base, field(0 data,1 class,2 version,3 single magic byte,4 multi magic), pos, v0,v1,v2,v3, spec, parser]
fn oracle_ident(case: &[u8], obs: &mut Obs) -> Result<(), String> {
    if case.len() < 9 {
        return Ok(());
    }
    let bs = bases();
    let (enc, base) = &bs[case[0] as usize % bs.len()];
    let field = case[1] % 5;
    let spec = case[7] % 4;
    let parser = case[8] % 3;
    let mut data = base.clone();
    let orig_data_byte = data[5];
    let (what, expect): (String, Option<&'static str>) = match field {
        0 => {
            data[5] = case[3];
            (format!("EI_DATA={}", case[3]), if !spec_accepts(spec, case[3]) { Some("UnsupportedElfEndianness") } else if case[3] == orig_data_byte { Some("Ok") } else { None })
        }
        1 => {
            data[4] = case[3];
            (format!("EI_CLASS={}", case[3]), if !spec_accepts(spec, orig_data_byte) { None } else if case[3] != 1 && case[3] != 2 { Some("UnsupportedElfClass") } else if case[3] == base[4] { Some("Ok") } else { None })
        }
        2 => {
            data[6] = case[3];
            (format!("EI_VERSION={}", case[3]), if !spec_accepts(spec, orig_data_byte) { None } else if case[3] != 1 { Some("UnsupportedVersion") } else { Some("Ok") })
        }
        3 => {
            let p = case[2] as usize % 4;
            data[p] = case[3];
            (format!("magic[{}]={:#x}", p, case[3]), if !spec_accepts(spec, orig_data_byte) { None } else if data[..4] != base[..4] { Some("BadMagic") } else { Some("Ok") })
        }
        _ => {
            data[..4].copy_from_slice(&case[3..7]);
            (format!("magic={}", hex(&case[3..7])), if !spec_accepts(spec, orig_data_byte) { None } else if data[..4] != base[..4] { Some("BadMagic") } else { Some("Ok") })
        }
    };
    let Some(expect) = expect else {
        obs.skip("more_than_one_defect_or_other_valid_value");
        return Ok(());
    };
    // the stream is handed over with its cursor at 0, 4 or 16 (a caller that sniffed the ident first)
    let pos0 = [0u64, 0, 4, 16][(case[3] as usize + case[1] as usize) % 4];
    let r = open_result(spec, parser, &data, pos0);
    let pname = ["ElfBytes::minimal_parse", "ElfStream::open_stream", "file::parse_ident"][parser as usize];
    let ctx = || format!("{} base file #{} ({} bytes) with {} through {}::<{}>", enc.name(), case[0] as usize % bs.len(), base.len(), what, pname, SPEC4[spec as usize]);
    let ok = match (&r, expect) {
        (Ok(()), "Ok") => true,
        (Err(ParseError::UnsupportedElfEndianness(b)), "UnsupportedElfEndianness") => *b == data[5],
        (Err(ParseError::UnsupportedElfClass(b)), "UnsupportedElfClass") => *b == data[4],
        (Err(ParseError::UnsupportedVersion((b, _))), "UnsupportedVersion") => *b == data[6] as u64,
        (Err(ParseError::BadMagic(m)), "BadMagic") => m[..] == data[..4],
        _ => false,
    };
    if !ok {
        return Err(format!("{}: got {:?}, expected {} carrying the bytes found", ctx(), r.as_ref().map_err(|e| format!("{:?}", e)), expect));
    }
    obs.label(expect);
    if expect != "Ok" {
        obs.nontrivial();
    }
    obs.describe(|| json!({"base": enc.name(), "base_len": base.len(), "change": what, "spec": SPEC4[spec as usize], "parser": pname, "expected": expect}));
    Ok(())
}

fn enum_ident(shard: usize, nshards: usize, _t: Tier, emit: &mut dyn FnMut(&[u8]) -> bool) {
    let nb = bases().len() as u8;
    let mut n = 0usize;
    let mut s = 0x1d3_u64;
    for base in 0..nb {
        for spec in 0..4u8 {
            for parser in 0..3u8 {
                for field in 0..3u8 {
                    for v in 0..=255u8 {
                        n += 1;
                        if n % nshards == shard && !emit(&[base, field, 0, v, 0, 0, 0, spec, parser]) {
                            return;
                        }
                    }
                }
                // every single-byte magic corruption on the bare headers, a sample of them on the rich files
                for pos in 0..4u8 {
                    for v in 0..=255u8 {
                        if base >= 4 && v % 16 != 5 {
                            continue;
                        }
                        n += 1;
                        if n % nshards == shard && !emit(&[base, 3, pos, v, 0, 0, 0, spec, parser]) {
                            return;
                        }
                    }
                }
                for _ in 0..24 {
                    let r = verif_model::choice::splitmix(&mut s).to_le_bytes();
                    n += 1;
                    if n % nshards == shard && !emit(&[base, 4, 0, r[0], r[1], r[2], r[3], spec, parser]) {
                        return;
                    }
                }
            }
        }
    }
}

fn digest_vec<E: EndianParse>(f: &elf::ElfBytes<'_, E>, plan: &[queries::Q]) -> Vec<QR> {
    plan.iter().map(|q| queries::eval_bytes(f, q)).collect()
}

/// AnyEndian vs the matching fixed spec over generated (and mildly corrupted) files.
fn oracle_equiv(case: &[u8], obs: &mut Obs) -> Result<(), String> {
    let mut c = Choice::new(case);
    let o = RichOpts { override_chance: 60, corrupt_chance: 40, max_gap: 16, tables_early: false, allow_compressed: true, max_names: 6, shrink_chance: 30, many_sections: false };
    let r = filegen::rich_file(&mut c, &o);
    let data = &r.built.bytes;
    let le_file = data.get(5) == Some(&1);
    let any = elf::ElfBytes::<AnyEndian>::minimal_parse(data);
    let le = elf::ElfBytes::<LittleEndian>::minimal_parse(data);
    let be = elf::ElfBytes::<BigEndian>::minimal_parse(data);
    let nat = elf::ElfBytes::<NativeEndian>::minimal_parse(data);
    let same = if le_file { le.is_ok() } else { be.is_ok() };
    let other: Result<(), &ParseError> = if le_file { be.as_ref().map(|_| ()) } else { le.as_ref().map(|_| ()) };
    if any.is_ok() != same {
        return Err(format!("a {}-byte {} file: AnyEndian open = {}, matching fixed spec open = {}", data.len(), r.spec.enc.name(), ok_err(&any), if le_file { ok_err(&le) } else { ok_err(&be) }));
    }
    if nat.is_ok() != le.is_ok() && cfg!(target_endian = "little") {
        return Err("NativeEndian and LittleEndian disagree on a little-endian host".into());
    }
    match other {
        Ok(()) => {
            if data.len() >= 16 && data[..4] == [0x7f, b'E', b'L', b'F'] {
                return Err(format!("the {} spec opened a file whose EI_DATA is {}", if le_file { "BigEndian" } else { "LittleEndian" }, data[5]));
            }
        }
        Err(ParseError::UnsupportedElfEndianness(b)) => {
            if *b != data[5] {
                return Err(format!("UnsupportedElfEndianness carries {} but EI_DATA is {}", b, data[5]));
            }
            obs.label("rejected_by_other_spec");
        }
        Err(_) => {}
    }
    // the byte-order gate looks at EI_DATA and nothing else: whatever the rest of the file holds, a spec whose set
    // contains the file's EI_DATA never reports UnsupportedElfEndianness, and the error always carries EI_DATA
    if data.len() > 5 {
        let d = data[5];
        for (name, res, in_set) in [("AnyEndian", any.as_ref().map(|_| ()), d == 1 || d == 2), ("LittleEndian", le.as_ref().map(|_| ()), d == 1), ("BigEndian", be.as_ref().map(|_| ()), d == 2), ("NativeEndian", nat.as_ref().map(|_| ()), d == if cfg!(target_endian = "little") { 1 } else { 2 })] {
            if let Err(ParseError::UnsupportedElfEndianness(b)) = res {
                if in_set || *b != d {
                    return Err(format!("a {}-byte file with EI_DATA={} is refused by the {} spec with UnsupportedElfEndianness({})", data.len(), d, name, b));
                }
            }
        }
    }
    let mut sections = 0;
    if let Ok(fa) = &any {
        let plan = queries::plan(fa, &r.dyn_names, 24);
        let da = digest_vec(fa, &plan);
        let df = if le_file { digest_vec(le.as_ref().unwrap(), &plan) } else { digest_vec(be.as_ref().unwrap(), &plan) };
        for (i, q) in plan.iter().enumerate() {
            if da[i] != df[i] {
                return Err(format!("{} file of {} bytes: query {:?} answers {:?} under AnyEndian and {:?} under the matching fixed spec", r.spec.enc.name(), data.len(), q, da[i], df[i]));
            }
        }
        if le_file {
            let dn = digest_vec(nat.as_ref().unwrap(), &plan);
            if dn != da {
                return Err("NativeEndian digest differs from AnyEndian on a little-endian file".into());
            }
        }
        sections = fa.section_headers().map(|t| t.len()).unwrap_or(0);
        obs.count("queries_compared", plan.len() as u64);
        obs.label("opened_and_compared");
    }
    if sections >= 1 {
        obs.nontrivial();
    }
    obs.key = fnv64(data);
    obs.describe(|| json!({"enc": r.spec.enc.name(), "file_len": data.len(), "opened": any.is_ok(), "sections": sections, "overridden": r.overridden, "corrupted": r.corrupted}));
    Ok(())
}

pub fn property() -> Property {
    Property {
        id: "C10",
        level: "exploration",
        rule: "ident: exhaustive - 8 base files (a bare header and a richer generated file for each class x order) with EI_DATA, EI_CLASS, EI_VERSION each set to all 256 values, every single-byte magic corruption (bare headers; a sixteenth of them on the rich files) and 24 pseudo-random 4-byte magics, x {LittleEndian, BigEndian, AnyEndian, NativeEndian} x {ElfBytes::minimal_parse, ElfStream::open_stream (reader cursor initially at 0, 4 or 16; short reads of 1, 7 or 15/3 bytes and/or ErrorKind::Interrupted every third read), file::parse_ident}; with exactly one defect the expected result is UnsupportedElfEndianness(b) / UnsupportedElfClass(b) / UnsupportedVersion((b,_)) / BadMagic(found bytes) carrying the bytes found, LE accepts only 1, BE only 2, Any both, Native = host order; combinations with two defects or another valid value are skipped (counted). equiv: generated files (40% with overrides/corruption): opens under AnyEndian iff under the matching fixed spec, then the full query-digest vector (headers, section data, typed views, names, symbol tables, dynamic, hash lookups, version queries) is identical; the other fixed spec rejects with UnsupportedElfEndianness(EI_DATA); no spec whose set contains EI_DATA ever reports UnsupportedElfEndianness, whatever the rest of the file holds (header fields overridden with boundary, byte-swapped and raw values). Non-trivial: an ident case expected to be rejected, or an equivalence case that opened with at least one section.",
        assumptions: &["little-endian host for the NativeEndian clause"],
        subs: vec![Sub::enumerated("ident", oracle_ident, enum_ident, true), Sub::new("equiv", oracle_equiv, 1400, 600_000, 20_000_000).shrink(1500)],
        extras: vec![crate::fuzz::c10_choice],
    }
}
