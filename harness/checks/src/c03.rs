//! C03 — returned data is the exact header-designated byte range of the input.
use crate::common::*;
use crate::conv;
use crate::with_endian;
use elf::note::Note;
use elf::section::SectionHeader;
use elf::segment::ProgramHeader;
use verif_model::elfw as m;
use verif_model::filegen::{self, FileSpec, Sec, Seg};
use verif_model::refs;

/// The range [off, off+size) if it lies inside a buffer of `len` bytes.
fn inside(off: u64, size: u64, len: usize) -> Option<(usize, usize)> {
    let end = off.checked_add(size)?;
    if end > len as u64 {
        return None;
    }
    Some((off as usize, end as usize))
}

fn range_pair(c: &mut Choice, len: u64, pool: &mut Vec<(u64, u64)>) -> (u64, u64) {
    let p = match c.below(12) {
        0 | 1 => {
            let a = c.below(len + 1);
            (a, c.below(len - a + 1))
        }
        2 => (*c.pick(&[0, len / 2, len, len + 1, len.saturating_sub(1)]), 0),
        3 => {
            let end = *c.pick(&[len.saturating_sub(1), len, len + 1]);
            let a = c.below(end + 1);
            (a, end - a)
        }
        4 => (len + 1 + c.below(1000), c.val(32)),
        5 => {
            let x = c.below(64);
            (u64::MAX - x, x + c.below(64))
        }
        6 => (c.val(64), c.val(64)),
        7 if !pool.is_empty() => {
            // share a start or an end with an earlier range
            let (o, s) = pool[c.idx(pool.len())];
            if c.bool() {
                (o, c.below(len.saturating_sub(o) + 2))
            } else {
                let end = o.wrapping_add(s);
                let a = c.below(end.min(len) + 1);
                (a, end.wrapping_sub(a))
            }
        }
        8 => (0, len),
        9 => (0, len + 1),
        _ => {
            let a = c.below(len + 1);
            (a, c.below(40))
        }
    };
    pool.push(p);
    p
}

struct Ctx<'a> {
    data: &'a [u8],
    enc: Enc,
    checked: u64,
    refused: u64,
}

fn ptr_is(s: &[u8], data: &[u8], start: usize, len: usize) -> bool {
    s.len() == len && (len == 0 || s.as_ptr() as usize == data.as_ptr() as usize + start)
}

fn check_section<E: EndianParse>(f: &elf::ElfBytes<'_, E>, h: &m::Shdr, cx: &mut Ctx, who: &str) -> Result<(), String> {
    let sh: SectionHeader = conv::shdr(h, cx.enc);
    let h = h.as_written(cx.enc);
    let len = cx.data.len();
    let d = |w: &str| format!("{} {} (type {:#x} flags {:#x} sh_offset {:#x} sh_size {:#x}) in a {}-byte file: {}", cx.enc.name(), who, h.sh_type, h.sh_flags, h.sh_offset, h.sh_size, len, w);
    let r = f.section_data(&sh);
    let chs = m::chdr_size(cx.enc);
    let want: Result<(usize, usize, bool), ()> = if h.sh_type == m::SHT_NOBITS {
        Ok((0, 0, false))
    } else {
        match inside(h.sh_offset, h.sh_size, len) {
            None => Err(()),
            Some((a, b)) => {
                if h.sh_flags & m::SHF_COMPRESSED != 0 {
                    if b - a < chs {
                        Err(())
                    } else {
                        Ok((a + chs, b, true))
                    }
                } else {
                    Ok((a, b, false))
                }
            }
        }
    };
    match (&r, &want) {
        (Ok((s, ch)), Ok((a, b, comp))) => {
            if !ptr_is(s, cx.data, *a, b - a) {
                return Err(d(&format!("section_data returned {} bytes at input offset {:?}, the headers designate [{}, {})", s.len(), (s.as_ptr() as usize).checked_sub(cx.data.as_ptr() as usize), a, b)));
            }
            if ch.is_some() != *comp {
                return Err(d(&format!("compression header presence {} (SHF_COMPRESSED {})", ch.is_some(), comp)));
            }
            if let Some(ch) = ch {
                let o = h.sh_offset as usize;
                let ty = refs::rd_u32(cx.enc.le, cx.data, o).unwrap();
                let (sz, al) = if cx.enc.c64 { (refs::rd_u64(cx.enc.le, cx.data, o + 8).unwrap(), refs::rd_u64(cx.enc.le, cx.data, o + 16).unwrap()) } else { (refs::rd_u32(cx.enc.le, cx.data, o + 4).unwrap() as u64, refs::rd_u32(cx.enc.le, cx.data, o + 8).unwrap() as u64) };
                if ch.ch_type != ty || ch.ch_size != sz || ch.ch_addralign != al {
                    return Err(d(&format!("compression header {:?} does not match the bytes at the section start", ch)));
                }
            }
            cx.checked += 1;
        }
        (Err(_), Err(())) => cx.refused += 1,
        (Ok((s, _)), Err(())) => return Err(d(&format!("section_data returned Ok({} bytes) although the designated range does not fit", s.len()))),
        (Err(e), Ok((a, b, _))) => return Err(d(&format!("section_data failed with {} although [{}, {}) lies inside the file", err_name(e), a, b))),
    }
    // typed views borrow the same range (wrong type -> refused; NOBITS/compressed go through section_data)
    let plain = h.sh_type != m::SHT_NOBITS && h.sh_flags & m::SHF_COMPRESSED == 0;
    if h.sh_type == m::SHT_STRTAB && plain {
        match (f.section_data_as_strtab(&sh), inside(h.sh_offset, h.sh_size, len)) {
            (Ok(t), Some((a, b))) => {
                // every string start inside the table: pointer = section start + offset
                let mut k = 0;
                for off in [0usize, 1, 2, 3, 5, 8, (b - a) / 2, (b - a).saturating_sub(2), (b - a).saturating_sub(1), b - a] {
                    let want = if off < b - a { cx.data[a + off..b].iter().position(|x| *x == 0).map(|p| (a + off, p)) } else { None };
                    match (t.get_raw(off), want) {
                        (Ok(s), Some((st, l))) => {
                            if !ptr_is(s, cx.data, st, l) {
                                return Err(d(&format!("string at table offset {} is {} bytes at input offset {:?}, expected {} bytes at {}", off, s.len(), (s.as_ptr() as usize).checked_sub(cx.data.as_ptr() as usize), l, st)));
                            }
                            k += 1;
                        }
                        (Err(_), None) => {}
                        (Ok(s), None) => return Err(d(&format!("string table lookup at {} returned {} bytes but no string starts there inside the section", off, s.len()))),
                        (Err(e), Some(_)) => return Err(d(&format!("string table lookup at {} failed with {}", off, err_name(&e)))),
                    }
                }
                cx.checked += k;
            }
            (Err(_), None) => cx.refused += 1,
            (Ok(_), None) => return Err(d("section_data_as_strtab succeeded although the range does not fit")),
            (Err(e), Some(_)) => return Err(d(&format!("section_data_as_strtab failed with {}", err_name(&e)))),
        }
    }
    if h.sh_type == m::SHT_STRTAB && h.sh_flags & m::SHF_COMPRESSED != 0 {
        // the typed view is a view of section_data: without the compression header
        match (f.section_data_as_strtab(&sh), inside(h.sh_offset, h.sh_size, len)) {
            (Ok(t), Some((a, b))) if b - a >= chs => {
                for off in [0usize, 1, 2, 5] {
                    let st0 = a + chs + off;
                    let want = if st0 < b { cx.data[st0..b].iter().position(|x| *x == 0).map(|p| (st0, p)) } else { None };
                    match (t.get_raw(off), want) {
                        (Ok(s), Some((st, l))) => {
                            if !ptr_is(s, cx.data, st, l) {
                                return Err(d(&format!("compressed string table: string at offset {} is {} bytes at input offset {:?}, expected {} bytes at {} (after the compression header)", off, s.len(), (s.as_ptr() as usize).checked_sub(cx.data.as_ptr() as usize), l, st)));
                            }
                            cx.checked += 1;
                        }
                        (Err(_), None) => {}
                        (Ok(s), None) => return Err(d(&format!("compressed string table lookup at {} returned {} bytes but nothing starts there after the compression header", off, s.len()))),
                        (Err(e), Some(_)) => return Err(d(&format!("compressed string table lookup at {} failed with {}", off, err_name(&e)))),
                    }
                }
            }
            (Ok(_), Some(_)) | (Ok(_), None) => return Err(d("section_data_as_strtab succeeded on a compressed section that is out of range or shorter than its compression header")),
            (Err(_), _) => cx.refused += 1,
        }
    }
    if h.sh_type == m::SHT_NOTE && plain {
        match (f.section_data_as_notes(&sh), inside(h.sh_offset, h.sh_size, len)) {
            (Ok(it), Some((a, b))) => {
                let (want, _) = refs::walk_notes(cx.enc.le, h.sh_addralign, &cx.data[a..b]);
                for (k, n) in it.enumerate() {
                    let Some(w) = want.get(k) else { break };
                    let ok = match &n {
                        Note::GnuBuildId(bid) => ptr_is(bid.0, cx.data, a + w.desc.0, w.desc.1 - w.desc.0),
                        Note::Unknown(x) => ptr_is(x.name, cx.data, a + w.name.0, w.name.1 - w.name.0) && ptr_is(x.desc, cx.data, a + w.desc.0, w.desc.1 - w.desc.0),
                        Note::GnuAbiTag(_) => true,
                    };
                    if !ok {
                        return Err(d(&format!("note #{} ({:?}) does not borrow the designated name/desc ranges {:?}/{:?} (relative to the section start {})", k, n, w.name, w.desc, a)));
                    }
                    cx.checked += 1;
                }
            }
            (Err(_), None) => cx.refused += 1,
            (Ok(_), None) => return Err(d("section_data_as_notes succeeded although the range does not fit")),
            (Err(e), Some(_)) => return Err(d(&format!("section_data_as_notes failed with {}", err_name(&e)))),
        }
    }
    Ok(())
}

fn check_segment<E: EndianParse>(f: &elf::ElfBytes<'_, E>, p: &m::Phdr, cx: &mut Ctx, who: &str) -> Result<(), String> {
    let ph: ProgramHeader = conv::phdr(p, cx.enc);
    let p = p.as_written(cx.enc);
    let len = cx.data.len();
    let d = |w: &str| format!("{} {} (type {:#x} p_offset {:#x} p_filesz {:#x} p_memsz {:#x}) in a {}-byte file: {}", cx.enc.name(), who, p.p_type, p.p_offset, p.p_filesz, p.p_memsz, len, w);
    match (f.segment_data(&ph), inside(p.p_offset, p.p_filesz, len)) {
        (Ok(s), Some((a, b))) => {
            if !ptr_is(s, cx.data, a, b - a) {
                return Err(d(&format!("segment_data returned {} bytes at input offset {:?}, the header designates [{}, {})", s.len(), (s.as_ptr() as usize).checked_sub(cx.data.as_ptr() as usize), a, b)));
            }
            cx.checked += 1;
        }
        (Err(_), None) => cx.refused += 1,
        (Ok(s), None) => return Err(d(&format!("segment_data returned Ok({} bytes) although [p_offset, p_offset+p_filesz) does not fit", s.len()))),
        (Err(e), Some((a, b))) => return Err(d(&format!("segment_data failed with {} although [{}, {}) lies inside the file", err_name(&e), a, b))),
    }
    if p.p_type == m::PT_NOTE {
        match (f.segment_data_as_notes(&ph), inside(p.p_offset, p.p_filesz, len)) {
            (Ok(it), Some((a, b))) => {
                let (want, _) = refs::walk_notes(cx.enc.le, p.p_align, &cx.data[a..b]);
                for (k, n) in it.enumerate() {
                    let Some(w) = want.get(k) else { break };
                    let ok = match &n {
                        Note::GnuBuildId(bid) => ptr_is(bid.0, cx.data, a + w.desc.0, w.desc.1 - w.desc.0),
                        Note::Unknown(x) => ptr_is(x.name, cx.data, a + w.name.0, w.name.1 - w.name.0) && ptr_is(x.desc, cx.data, a + w.desc.0, w.desc.1 - w.desc.0),
                        Note::GnuAbiTag(_) => true,
                    };
                    if !ok {
                        return Err(d(&format!("segment note #{} ({:?}) does not borrow the designated ranges", k, n)));
                    }
                    cx.checked += 1;
                }
            }
            (Err(_), None) => cx.refused += 1,
            (Ok(_), None) => return Err(d("segment_data_as_notes succeeded although the range does not fit")),
            (Err(e), Some(_)) => return Err(d(&format!("segment_data_as_notes failed with {}", err_name(&e)))),
        }
    }
    Ok(())
}

fn oracle(case: &[u8], obs: &mut Obs) -> Result<(), String> {
    let mut c = Choice::new(case);
    let enc = ALL_ENC[c.below(4) as usize];
    let spec = specs_for(enc.le)[c.below(2) as usize];
    let mut f = FileSpec::new(enc);
    f.add_sec(b"", m::SHT_NULL, vec![]);
    // real content: strings, notes, a compressed blob, plain data
    let mut st = m::StrTab::new();
    for i in 0..1 + c.below(5) {
        let l = 1 + c.below(8) as usize;
        let s: Vec<u8> = (0..l).map(|k| b'a' + ((i as usize + k) % 26) as u8).collect();
        st.add(&s);
    }
    if c.chance(60) {
        st.data.pop();
    }
    f.add_sec(b".strs", m::SHT_STRTAB, st.data);
    let nalign = *c.pick(&[4u64, 8, 1, 2, 4, 3, 5, 6, 12, 16]);
    let mut w = m::W::new(enc);
    for _ in 0..1 + c.below(3) {
        let (nl, dl) = (c.below(9) as usize, c.below(14) as usize);
        let rec = if c.bool() { m::NoteRec { n_type: 3, name: b"GNU\0".to_vec(), desc: c.bytes(dl) } } else { m::NoteRec { n_type: c.val(32) as u32, name: c.bytes(nl), desc: c.bytes(dl) } };
        rec.write(&mut w, 0, nalign as usize);
    }
    let ni = f.add_sec(b".note", m::SHT_NOTE, w.buf);
    f.secs[ni].hdr.sh_addralign = nalign;
    {
        let l = c.below(30) as usize;
        let mut body = m::enc_bytes(enc, |w| m::Chdr { ch_type: if c.bool() { 1 } else { c.val(32) as u32 }, ch_reserved: 0, ch_size: c.val(32), ch_addralign: c.val(16) }.write(w));
        let pl = c.bytes(l);
        body.extend_from_slice(&pl);
        if c.chance(90) {
            let nl = c.idx(body.len() + 1);
            body.truncate(nl);
        }
        let i = f.add_sec(b".z", m::SHT_PROGBITS, body);
        f.secs[i].hdr.sh_flags = m::SHF_COMPRESSED | if c.bool() { 2 } else { 0 };
    }
    {
        let l = 8 + c.below(200) as usize;
        let mut b = vec![0u8; l];
        verif_model::choice::fill(c.u16() as u64 | 1, &mut b);
        f.add_sec(b".blob", m::SHT_PROGBITS, b);
    }
    if c.chance(200) {
        let names: Vec<Vec<u8>> = vec![vec![], b"alpha".to_vec(), b"be".to_vec()];
        let tab = refs::build_symtab(enc, &names, c.u16() as u64, false);
        let i_str = f.add_sec(b".strtab", m::SHT_STRTAB, tab.strtab);
        let i = f.add_sec(b".symtab", m::SHT_SYMTAB, tab.symtab);
        f.secs[i].hdr.sh_link = i_str as u32;
        f.secs[i].hdr.sh_entsize = m::sym_size(enc) as u64;
        let s = f.add_sec(b".shstrtab", m::SHT_STRTAB, vec![]);
        f.shstrndx = Some(s);
    }
    // symbol versions with SEPARATE string tables for requirements and definitions
    let mut ver: Option<(usize, usize, usize)> = None;
    if c.chance(90) {
        let mut model = refs::gen_version_model(&mut c, 3, 3, 3, 8);
        model.versym.resize(8, 1);
        if !model.needs.is_empty() && !model.defs.is_empty() {
            let vs = refs::build_versions(enc, &model, &mut c, true, false);
            let i_n = f.add_sec(b".needstr", m::SHT_STRTAB, vs.need_strs.clone());
            let i_d = f.add_sec(b".defstr", m::SHT_STRTAB, vs.def_strs.clone());
            let i = f.add_sec(b".gnu.version", m::SHT_GNU_VERSYM, vs.versym.clone());
            f.secs[i].hdr.sh_entsize = 2;
            let i = f.add_sec(b".gnu.version_r", m::SHT_GNU_VERNEED, vs.verneed.clone());
            f.secs[i].hdr.sh_link = i_n as u32;
            f.secs[i].hdr.sh_info = model.needs.len() as u32;
            let i = f.add_sec(b".gnu.version_d", m::SHT_GNU_VERDEF, vs.verdef.clone());
            f.secs[i].hdr.sh_link = i_d as u32;
            f.secs[i].hdr.sh_info = model.defs.len() as u32;
            ver = Some((i_n, i_d, model.versym.len()));
        }
    }
    filegen::random_layout(&mut c, &mut f, 24);
    let first = filegen::build(&f);
    let len = first.bytes.len() as u64;
    // fabricated ranges inside the file's own tables
    let mut pool: Vec<(u64, u64)> = first.shdrs.iter().map(|h| (h.sh_offset, h.sh_size)).collect();
    let nfab = c.below(5) as usize;
    const TYPES: [u32; 9] = [m::SHT_PROGBITS, m::SHT_STRTAB, m::SHT_NOTE, m::SHT_NOBITS, m::SHT_REL, m::SHT_RELA, m::SHT_SYMTAB, m::SHT_DYNAMIC, 0x7000_0001];
    for _ in 0..nfab {
        let (o, s) = range_pair(&mut c, len, &mut pool);
        f.secs.push(Sec { name: b".fab".to_vec(), hdr: m::Shdr { sh_type: *c.pick(&TYPES), sh_flags: if c.chance(50) { m::SHF_COMPRESSED } else { 0 }, sh_offset: o, sh_size: s, sh_addralign: *c.pick(&[0u64, 1, 4, 8]), sh_entsize: if c.bool() { 0 } else { c.val(16) }, ..Default::default() }, fixed_range: true, no_space: true, ..Default::default() });
    }
    let nseg = 1 + c.below(4) as usize;
    for k in 0..nseg {
        let (o, s) = if k == 0 && c.bool() { (first.shdrs[ni].sh_offset, first.shdrs[ni].sh_size) } else { range_pair(&mut c, len, &mut pool) };
        // p_memsz always differs from p_filesz
        let mem = match c.below(4) {
            0 => 0,
            1 => s.wrapping_add(1 + c.below(4096)),
            2 => s / 2 + (s == 0) as u64,
            _ => c.val(64),
        };
        let mem = if mem == s { s.wrapping_add(1) } else { mem };
        f.segs.push(Seg { hdr: m::Phdr { p_type: *c.pick(&[m::PT_LOAD, m::PT_NOTE, m::PT_NOTE, m::PT_DYNAMIC, 0x6474_e551, m::PT_NULL, m::PT_NULL]), p_offset: o, p_filesz: s, p_memsz: mem, p_align: if c.bool() { nalign } else { *c.pick(&[0u64, 8, 16, 0x1000]) }, p_vaddr: c.val(64), p_paddr: c.val(64), ..Default::default() }, covers: None });
    }
    // the tables were laid out before the fabricated entries were added: rebuild (the layout of bodies is
    // unchanged because fabricated sections occupy no space), then draw again against the final length
    let b = filegen::build(&f);
    let data = &b.bytes;
    let mut cx = Ctx { data, enc, checked: 0, refused: 0 };
    let touches_eof = b.shdrs.iter().any(|h| h.sh_offset.checked_add(h.sh_size).map(|e| e.saturating_add(1) >= data.len() as u64).unwrap_or(true)) || b.phdrs.iter().any(|p| p.p_offset.checked_add(p.p_filesz).map(|e| e.saturating_add(1) >= data.len() as u64).unwrap_or(true));
    // headers not in the file at all (all fields are public)
    let mut extra_s = vec![];
    let mut extra_p = vec![];
    for _ in 0..2 {
        let (o, s) = range_pair(&mut c, data.len() as u64, &mut pool);
        extra_s.push(m::Shdr { sh_type: *c.pick(&TYPES), sh_flags: if c.chance(40) { m::SHF_COMPRESSED } else { 0 }, sh_offset: o, sh_size: s, sh_addralign: 4, sh_entsize: if c.bool() { 0 } else { c.val(16) }, ..Default::default() });
        let (o, s) = range_pair(&mut c, data.len() as u64, &mut pool);
        extra_p.push(m::Phdr { p_type: *c.pick(&[m::PT_LOAD, m::PT_NOTE]), p_offset: o, p_filesz: s, p_memsz: s ^ 0x10, p_align: 4, ..Default::default() });
    }
    with_endian!(spec, |e| {
        let file = open_as(e, data).map_err(|er| format!("harness: generated file does not open: {}", err_name(&er)))?;
        for (i, h) in b.shdrs.iter().enumerate() {
            check_section(&file, h, &mut cx, &format!("section {}", i))?;
        }
        for (i, p) in b.phdrs.iter().enumerate() {
            check_segment(&file, p, &mut cx, &format!("segment {}", i))?;
        }
        // strings handed out through the section-name table and the symbol tables borrow from the input too
        if let Ok((_, Some(t))) = file.section_headers_with_strtab() {
            let h = &b.shdrs[b.ehdr.e_shstrndx as usize];
            for k in [1usize, 2, 7] {
                if let Ok(sx) = t.get_raw(k) {
                    if !ptr_is(sx, cx.data, h.sh_offset as usize + k, sx.len()) {
                        return Err(format!("section-name string at offset {} does not point at sh_offset+{} of the designated string table", k, k));
                    }
                    cx.checked += 1;
                }
            }
        }
        if let Some((i_n, i_d, nsym)) = ver {
            let within = |s: &str, i: usize| -> bool {
                let h = &b.shdrs[i];
                let p = s.as_ptr() as usize;
                let base = cx.data.as_ptr() as usize + h.sh_offset as usize;
                s.is_empty() || (p >= base && p + s.len() <= base + h.sh_size as usize)
            };
            if let Ok(Some(t)) = file.symbol_version_table() {
                for i in 0..nsym {
                    if let Ok(Some(r)) = t.get_requirement(i) {
                        if !within(r.file, i_n) || !within(r.name, i_n) {
                            return Err(format!("get_requirement({}) returned strings ({:?}, {:?}) that do not lie in the string table .gnu.version_r links to", i, r.file, r.name));
                        }
                        cx.checked += 1;
                    }
                    if let Ok(Some(d)) = t.get_definition(i) {
                        for nm in d.names.take(8).flatten() {
                            if !within(nm, i_d) {
                                return Err(format!("get_definition({}) returned the name {:?} which does not lie in the string table .gnu.version_d links to", i, nm));
                            }
                            cx.checked += 1;
                        }
                    }
                }
            }
        }
        if let Ok(Some((st, strs))) = file.symbol_table() {
            let symh = b.shdrs.iter().find(|h| h.sh_type == m::SHT_SYMTAB).unwrap();
            let strh = &b.shdrs[symh.sh_link as usize];
            if st.len() != (symh.sh_size as usize) / m::sym_size(enc) {
                return Err("symbol_table() has a different number of entries than sh_size / entsize".into());
            }
            for k in [0usize, 1, 3, 4] {
                if let Ok(sx) = strs.get_raw(k) {
                    if !ptr_is(sx, cx.data, strh.sh_offset as usize + k, sx.len()) {
                        return Err(format!("symbol-name string at offset {} does not point at the linked string table's sh_offset+{}", k, k));
                    }
                    cx.checked += 1;
                }
            }
        }
        for h in &extra_s {
            check_section(&file, h, &mut cx, "fabricated section header")?;
        }
        for p in &extra_p {
            check_segment(&file, p, &mut cx, "fabricated program header")?;
        }
        Ok::<(), String>(())
    })?;
    obs.count("slices_checked", cx.checked);
    obs.count("ranges_refused", cx.refused);
    obs.label_if(touches_eof, "range_touching_or_crossing_eof");
    obs.label_if(cx.refused > 0, "some_range_refused");
    if cx.checked > 0 && (touches_eof || !b.phdrs.is_empty()) {
        obs.nontrivial();
    }
    obs.key = fnv64(data) ^ spec as u64;
    obs.describe(|| json!({"enc": enc.name(), "spec": SPEC_NAMES[spec as usize], "file_len": data.len(), "section_ranges": b.shdrs.iter().map(|h| format!("t{:#x} f{:#x} [{:#x}+{:#x}]", h.sh_type, h.sh_flags, h.sh_offset, h.sh_size)).collect::<Vec<_>>(), "segment_ranges": b.phdrs.iter().map(|p| format!("t{:#x} [{:#x}+{:#x}] mem {:#x}", p.p_type, p.p_offset, p.p_filesz, p.p_memsz)).collect::<Vec<_>>(), "slices_checked": cx.checked, "ranges_refused": cx.refused}));
    Ok(())
}

pub fn property() -> Property {
    Property {
        id: "C03",
        level: "exploration",
        rule: "cases are generated files (class x order x fixed/run-time spec, random layout) holding real string, note, compressed (payload of every length incl. shorter than the compression header) and plain sections, plus 0..4 section headers and 1..4 program headers with fabricated ranges drawn from boundary pairs (inside; zero-length at 0/mid/EOF/EOF+1; ending at EOF-1/EOF/EOF+1; far outside; offset+size overflowing; sharing a start or an end with another range; whole file; raw 64-bit values), p_memsz != p_filesz always, NOBITS and SHF_COMPRESSED flags on arbitrary ranges, and 4 headers that are not in the file at all. Oracle (ground truth = header values as written by the builder): for every &[u8]/&str handed out by section_data, segment_data, section_data_as_strtab (+get_raw at 10 offsets), section_data_as_notes / segment_data_as_notes (name, desc, build-id): pointer - input pointer and length equal the designated range (minus the compression header when SHF_COMPRESSED - also for a compressed string table's typed view -, empty for NOBITS, string/note sub-ranges from the reference walkers); section-name strings, symbol-name strings (symbol_table()) and the strings of symbol-version requirements/definitions (separate string tables for .gnu.version_r and .gnu.version_d) lie at the designated offsets of the string table their section links to; a range not inside the buffer gives Err, a range inside gives Ok. Non-trivial: at least one returned slice was pointer-checked and the file has a range touching/crossing EOF or a program header (p_memsz != p_filesz); distinct by file hash.",
        assumptions: &["empty slices are compared by length only (their pointer is unspecified)"],
        subs: vec![Sub::new("ranges", oracle, 1200, 1_500_000, 40_000_000)],
        extras: vec![crate::fuzz::c03_choice],
    }
}
