//! C18 — a truncated file yields errors or unchanged answers, never different answers; appending bytes
//! changes no answer.
use crate::common::*;
use crate::conv;
use crate::queries::{self, Q, QR};
use verif_model::filegen::{self, RichOpts};
use verif_model::inputs;

struct Stats {
    prefixes: u64,
    opened: u64,
    mixed: u64,
    ok_answers: u64,
    err_answers: u64,
    stream_prefixes: u64,
}

fn lengths_to_try(len: usize, marks: &[usize], c: &mut Choice, every_below: usize) -> Vec<usize> {
    if len <= every_below {
        return (0..len).collect();
    }
    let mut v: Vec<usize> = vec![0, 1, 15, 16, 17, 51, 52, 53, 63, 64, 65, len - 1];
    for m in marks {
        for d in [-1i64, 0, 1] {
            let x = *m as i64 + d;
            if x >= 0 && (x as usize) < len {
                v.push(x as usize);
            }
        }
    }
    while v.len() < 256 {
        v.push(c.below(len as u64) as usize);
    }
    v.sort();
    v.dedup();
    v
}

fn check_file(w: &[u8], names: &[Vec<u8>], marks: &[usize], c: &mut Choice, every_below: usize, st: &mut Stats) -> Result<(), String> {
    let fw = match elf::ElfBytes::<AnyEndian>::minimal_parse(w) {
        Ok(f) => f,
        Err(_) => return Ok(()),
    };
    let plan: Vec<Q> = queries::plan(&fw, names, 20);
    let rw: Vec<QR> = plan.iter().map(|q| queries::eval_bytes(&fw, q)).collect();
    let mut sw = elf::ElfStream::<AnyEndian, _>::open_stream(std::io::Cursor::new(w)).ok();
    let rws: Vec<Option<QR>> = match sw.as_mut() {
        Some(s) => plan.iter().map(|q| queries::eval_stream(s, q)).collect(),
        None => vec![None; plan.len()],
    };
    // the stand-alone ident parser on every prefix of the first 20 bytes: an error or the complete file's answer
    let whole_ident = elf::file::parse_ident::<AnyEndian>(&w[..w.len().min(16)]).ok();
    for l in 0..w.len().min(21) {
        let r = guard(|| elf::file::parse_ident::<AnyEndian>(&w[..l])).map_err(|p| format!("parse_ident panicked on the {}-byte prefix of a {}-byte file: {}", l, w.len(), p))?;
        if let Ok(x) = r {
            if l < 16 || Some(x) != whole_ident {
                return Err(format!("parse_ident on the {}-byte prefix answers Ok({:?}); on the complete file's ident it answers {:?}", l, x, whole_ident));
            }
        }
    }
    // the stand-alone header parsers at the first entries of both tables: on a prefix, an error or the complete file's
    // answer (a caller may read headers straight from a partly written file)
    let (en, class) = (fw.ehdr.endianness, fw.ehdr.class);
    let mut sh_at: Vec<(usize, Option<elf::section::SectionHeader>)> = vec![];
    let mut ph_at: Vec<(usize, Option<elf::segment::ProgramHeader>)> = vec![];
    for i in 0..3usize {
        if let Some(o) = (fw.ehdr.e_shoff as usize).checked_add(i * if class == Class::ELF64 { 64 } else { 40 }).filter(|_| fw.ehdr.e_shoff != 0) {
            let mut off = o;
            sh_at.push((o, elf::section::SectionHeader::parse_at(en, class, &mut off, w).ok()));
        }
        if let Some(o) = (fw.ehdr.e_phoff as usize).checked_add(i * if class == Class::ELF64 { 56 } else { 32 }).filter(|_| fw.ehdr.e_phoff != 0) {
            let mut off = o;
            ph_at.push((o, elf::segment::ProgramHeader::parse_at(en, class, &mut off, w).ok()));
        }
    }
    for l in lengths_to_try(w.len(), marks, c, every_below) {
        let p = &w[..l];
        st.prefixes += 1;
        for (o, whole) in &sh_at {
            let mut off = *o;
            let r = guard(|| elf::section::SectionHeader::parse_at(en, class, &mut off, p)).map_err(|m| format!("SectionHeader::parse_at panicked at offset {} of the {}-byte prefix: {}", o, l, m))?;
            if let Ok(x) = r {
                if whole.as_ref().map(|y| conv::FieldEq::field_eq(&x, y)) != Some(true) {
                    return Err(format!("SectionHeader::parse_at at offset {} of the {}-byte prefix of a {}-byte file answers Ok({:?}); on the complete file it answers {:?}", o, l, w.len(), x, whole));
                }
            }
        }
        for (o, whole) in &ph_at {
            let mut off = *o;
            let r = guard(|| elf::segment::ProgramHeader::parse_at(en, class, &mut off, p)).map_err(|m| format!("ProgramHeader::parse_at panicked at offset {} of the {}-byte prefix: {}", o, l, m))?;
            if let Ok(x) = r {
                if whole.as_ref().map(|y| conv::FieldEq::field_eq(&x, y)) != Some(true) {
                    return Err(format!("ProgramHeader::parse_at at offset {} of the {}-byte prefix of a {}-byte file answers Ok({:?}); on the complete file it answers {:?}", o, l, w.len(), x, whole));
                }
            }
        }
        if let Ok(fp) = elf::ElfBytes::<AnyEndian>::minimal_parse(p) {
            st.opened += 1;
            let (mut oks, mut errs) = (0, 0);
            for (i, q) in plan.iter().enumerate() {
                match queries::eval_bytes(&fp, q) {
                    Ok(x) => {
                        oks += 1;
                        if rw[i] != Ok(x) {
                            return Err(format!("slice parser: on the {}-byte prefix of a {}-byte file the query {:?} answers Ok({:#x}); on the complete file it answers {:?}", l, w.len(), q, x, rw[i]));
                        }
                    }
                    Err(()) => errs += 1,
                }
            }
            st.ok_answers += oks;
            st.err_answers += errs;
            if oks > 0 && errs > 0 {
                st.mixed += 1;
            }
        }
        // the stream parser on a subset of the prefixes
        if sw.is_some() && (l % 3 == 0 || w.len() <= 1024) {
            if let Ok(mut sp) = elf::ElfStream::<AnyEndian, _>::open_stream(std::io::Cursor::new(p)) {
                st.stream_prefixes += 1;
                for (i, q) in plan.iter().enumerate() {
                    if let Some(Ok(x)) = queries::eval_stream(&mut sp, q) {
                        if rws[i] != Some(Ok(x)) {
                            return Err(format!("stream parser: on the {}-byte prefix of a {}-byte file the query {:?} answers Ok({:#x}); on the complete file it answers {:?}", l, w.len(), q, x, rws[i]));
                        }
                    }
                }
            }
            // the same prefix behind a stream that cannot seek relative to its end (a legal Read+Seek): whatever
            // the parser does about the unknown length, a prefix must not answer differently from the complete file
            if l % 2 == 0 {
                let ek = ((l / 2) % 8) as u8;
                let rd = verif_model::io::Reader::new(p.to_vec()).without_seek_end(ek);
                if let Ok(mut sp) = guard(|| elf::ElfStream::<AnyEndian, _>::open_stream(rd)).map_err(|m| format!("stream parser: open_stream panicked on the {}-byte prefix behind a stream that cannot seek from its end: {}", l, m))? {
                    st.stream_prefixes += 1;
                    for (i, q) in plan.iter().enumerate() {
                        if let Some(Ok(x)) = queries::eval_stream(&mut sp, q) {
                            if rws[i] != Some(Ok(x)) {
                                return Err(format!("stream parser (stream whose SeekFrom::End fails with {:?}): on the {}-byte prefix of a {}-byte file the query {:?} answers Ok({:#x}); on the complete file it answers {:?}", verif_model::io::ERROR_KINDS[ek as usize], l, w.len(), q, x, rws[i]));
                            }
                        }
                    }
                }
            }
        }
    }
    // extension: arbitrary bytes appended after the end change no Ok answer
    for _ in 0..2 {
        let k = 1 + match c.below(3) {
            0 => c.below(8),
            1 => c.below(200),
            _ => c.below(4096),
        } as usize;
        let mut x = w.to_vec();
        let at = x.len();
        x.resize(at + k, 0);
        verif_model::choice::fill(c.u16() as u64 | 1, &mut x[at..]);
        match elf::ElfBytes::<AnyEndian>::minimal_parse(&x) {
            Ok(fx) => {
                for (i, q) in plan.iter().enumerate() {
                    if let Ok(a) = rw[i] {
                        let rx = queries::eval_bytes(&fx, q);
                        if rx != Ok(a) {
                            return Err(format!("slice parser: after appending {} bytes to a {}-byte file the query {:?} answers {:?} instead of Ok({:#x})", k, w.len(), q, rx, a));
                        }
                    }
                }
            }
            Err(e) => return Err(format!("slice parser: a {}-byte file that opens no longer opens after {} bytes were appended ({})", w.len(), k, err_name(&e))),
        }
        if sw.is_some() {
            match elf::ElfStream::<AnyEndian, _>::open_stream(std::io::Cursor::new(&x)) {
                Ok(mut sx) => {
                    for (i, q) in plan.iter().enumerate() {
                        if let Some(Ok(a)) = rws[i] {
                            let rx = queries::eval_stream(&mut sx, q);
                            if rx != Some(Ok(a)) {
                                return Err(format!("stream parser: after appending {} bytes to a {}-byte file the query {:?} answers {:?} instead of Ok({:#x})", k, w.len(), q, rx, a));
                            }
                        }
                    }
                }
                Err(e) => return Err(format!("stream parser: a {}-byte file that opens no longer opens after {} bytes were appended ({})", w.len(), k, err_name(&e))),
            }
        }
    }
    Ok(())
}

fn finish(st: &Stats, obs: &mut Obs) {
    obs.count("prefixes", st.prefixes);
    obs.count("prefixes_that_open", st.opened);
    obs.count("prefixes_with_ok_and_err_answers", st.mixed);
    obs.count("ok_answers_compared", st.ok_answers);
    obs.count("err_answers", st.err_answers);
    obs.count("stream_prefixes_that_open", st.stream_prefixes);
    obs.label_if(st.opened > 0, "some_prefix_opens");
    if st.mixed > 0 {
        obs.nontrivial();
    }
}

fn oracle_generated(case: &[u8], obs: &mut Obs) -> Result<(), String> {
    let mut c = Choice::new(case);
    let o = RichOpts { override_chance: 40, corrupt_chance: 24, max_gap: 24, tables_early: !c.chance(40), allow_compressed: true, max_names: 6, shrink_chance: 70, many_sections: false };
    let r = filegen::rich_file(&mut c, &o);
    let w = &r.built.bytes;
    let mut marks = vec![r.built.shoff, r.built.phoff, r.built.shoff + r.built.shdrs.len() * elfw::shdr_size(r.spec.enc), r.built.phoff + r.built.phdrs.len() * elfw::phdr_size(r.spec.enc)];
    for (o, l) in &r.built.body_at {
        marks.push(*o);
        marks.push(*o + *l);
    }
    let mut st = Stats { prefixes: 0, opened: 0, mixed: 0, ok_answers: 0, err_answers: 0, stream_prefixes: 0 };
    check_file(w, &r.dyn_names, &marks, &mut c, 4096, &mut st)?;
    finish(&st, obs);
    obs.label_if(r.overridden || r.corrupted, "corrupted_base_file");
    obs.key = fnv64(w);
    obs.describe(|| json!({"file_len": w.len(), "sections": r.built.shdrs.len(), "segments": r.built.phdrs.len(), "tables_early": o.tables_early, "prefixes_tried": st.prefixes, "prefixes_that_open": st.opened, "prefixes_with_ok_and_err_answers": st.mixed, "file_prefix_hex": hex(&w[..w.len().min(64)])}));
    Ok(())
}

/// raw mode (libFuzzer): the input is the complete file
pub fn oracle_raw(case: &[u8], obs: &mut Obs) -> Result<(), String> {
    if case.len() > 70_000 {
        return Ok(());
    }
    let seed = [3u8, 7, 9, 11, 13, 17, 19, 23, 29, 31, 37, 41, 43, 47, 53, 59, 61, 67, 71, 73, 79, 83, 89, 97, 101, 103, 107, 109, 113, 127, 131, 137];
    let mut c = Choice::new(&seed);
    let mut st = Stats { prefixes: 0, opened: 0, mixed: 0, ok_answers: 0, err_answers: 0, stream_prefixes: 0 };
    check_file(case, &[b"memset".to_vec(), b"use_memset".to_vec()], &[], &mut c, 700, &mut st)?;
    finish(&st, obs);
    obs.describe(|| json!({"mode": "raw_file", "file_len": case.len(), "prefixes_tried": st.prefixes, "prefixes_that_open": st.opened}));
    Ok(())
}

/// plain encoding: [sample index]: the linker-produced sample objects, 256 sampled prefix lengths each
fn oracle_sample(case: &[u8], obs: &mut Obs) -> Result<(), String> {
    let all = inputs::samples();
    let Some((name, w)) = case.first().and_then(|i| all.get(*i as usize)) else { return Ok(()) };
    let mut marks = vec![];
    if let Some((e, eh)) = verif_model::refs::read_ehdr(w) {
        marks.push(eh.e_shoff as usize);
        marks.push(eh.e_phoff as usize);
        for i in 0..eh.e_shnum as usize {
            if let Some(h) = verif_model::refs::read_shdr(e, w, eh.e_shoff as usize + i * elfw::shdr_size(e)) {
                marks.push(h.sh_offset as usize);
                marks.push((h.sh_offset + h.sh_size) as usize);
            }
        }
    }
    let seed = [case[0], 7, 9, 11, 13, 17, 19, 23, 29, 31, 37, 41, 43, 47, 53, 59, 61, 67, 71, 73, 79, 83, 89, 97, 101, 103, 107, 109, 113, 127, 131, 137];
    let mut c = Choice::new(&seed);
    let mut st = Stats { prefixes: 0, opened: 0, mixed: 0, ok_answers: 0, err_answers: 0, stream_prefixes: 0 };
    check_file(w, &[b"memset".to_vec(), b"use_memset".to_vec(), b"use_memset_v2".to_vec()], &marks, &mut c, 600, &mut st)?;
    finish(&st, obs);
    obs.describe(|| json!({"sample": name, "file_len": w.len(), "prefixes_tried": st.prefixes, "prefixes_that_open": st.opened}));
    Ok(())
}
fn enum_samples(shard: usize, nshards: usize, _t: Tier, emit: &mut dyn FnMut(&[u8]) -> bool) {
    for i in 0..inputs::samples().len() {
        if i % nshards == shard && !emit(&[i as u8]) {
            return;
        }
    }
}

pub fn property() -> Property {
    Property {
        id: "C18",
        level: "fault_enumeration",
        rule: "crash points = prefix lengths. generated: a rich generated file (every section kind, segments, tables placed directly behind the ELF header in 84% of cases so that most prefixes still open; a minority with header overrides/corruption; 27% declare one record-structured section smaller than its body; about 1% use the extended-numbering escape values although the counts would fit); EVERY prefix length 0..len-1 for files <= 4 KiB, otherwise 256 lengths (all structure boundaries +-1 plus random); a fixed query plan derived from the complete file (ehdr, counts, every section/program header, every section's data and typed views, section names, by-name lookups, both symbol tables with names, dynamic, hash lookups of all names, version queries) is evaluated to Result<content digest>; oracle: parse_ident on every prefix of the first 20 bytes gives an error or the complete ident's answer; on a prefix every Ok answer equals the complete file's answer (slice parser on every prefix, stream parser on a third of them or all for files <= 1 KiB), and after appending 1..4096 arbitrary bytes every Ok answer of the file is unchanged and the file still opens. samples: the 10 linker-produced sample objects with 256 sampled prefix lengths each. Non-trivial: a base file with a prefix that still opens and on which at least one query is Ok and at least one is Err; distinct by file hash.",
        assumptions: &["the extension clause is checked in the sound direction only (an out-of-file range legitimately turns from Err to Ok when bytes are appended)", "digests cover content, not error kinds"],
        subs: vec![Sub::new("generated", oracle_generated, 1400, 15_000, 500_000).shrink(400), Sub::enumerated("samples", oracle_sample, enum_samples, false), Sub::new("generated_raw", oracle_raw, 300, 2_000, 20_000).shrink(400)],
        extras: vec![crate::fuzz::c18_campaign],
    }
}
