//! C07 — stream parser and slice parser are observationally equivalent.
use crate::common::*;
use crate::queries::{self, Q, QR};
use crate::stream;
use verif_model::inputs::{self, InputOpts};
use verif_model::io::Reader;

pub fn oracle(case: &[u8], obs: &mut Obs) -> Result<(), String> {
    let mut c = Choice::new(case);
    // very rarely (two chosen non-zero bytes): an object whose .symtab links to a string table of 16..18 MiB, as a large
    // debug build has; the linked-table accessor must answer as on the slice whatever a cache makes of ranges this big
    if c.u8() == 0xA9 && c.u8() >= 252 {
        use verif_model::elfw as m;
        use verif_model::filegen::{self, FileSpec};
        use verif_model::refs;
        let enc = verif_model::elfw::ALL_ENC[c.below(4) as usize];
        let mut f = FileSpec::new(enc);
        f.add_sec(b"", m::SHT_NULL, vec![]);
        let names: Vec<Vec<u8>> = vec![vec![], b"alpha".to_vec(), b"beta".to_vec(), b"gamma_delta".to_vec()];
        let tab = refs::build_symtab(enc, &names, c.u16() as u64, false);
        let mut strs = tab.strtab.clone();
        let total = (16usize << 20) + c.below(2 << 20) as usize;
        while strs.len() < total {
            let k = strs.len();
            strs.push(if k % 4093 == 0 { 0 } else { b'a' + (k % 23) as u8 });
        }
        *strs.last_mut().unwrap() = 0;
        let i_str = f.add_sec(b".strtab", m::SHT_STRTAB, strs);
        let i_sym = f.add_sec(b".symtab", m::SHT_SYMTAB, tab.symtab.clone());
        f.secs[i_sym].hdr.sh_link = i_str as u32;
        f.secs[i_sym].hdr.sh_entsize = m::sym_size(enc) as u64;
        let s = f.add_sec(b".shstrtab", m::SHT_STRTAB, vec![]);
        f.shstrndx = Some(s);
        filegen::random_layout(&mut c, &mut f, 16);
        let b = filegen::build(&f);
        obs.label("string_table_above_16MiB");
        return check(&b.bytes, "huge_strtab", "", &[], &mut c, obs, true);
    }
    let mut o = InputOpts::default();
    o.weights = [60, 25, 15];
    o.rich.max_gap = 32;
    o.rich.many_sections = true;
    let inp = inputs::gen_input(&mut c, &o);
    let names: Vec<Vec<u8>> = inp.rich.as_ref().map(|r| r.dyn_names.clone()).unwrap_or_default();
    check(&inp.data, inp.mode, &inp.note, &names, &mut c, obs, false)
}

/// raw mode: [n][n bytes driving reader behaviour and the op sequence][the ELF file]
pub fn oracle_raw(case: &[u8], obs: &mut Obs) -> Result<(), String> {
    let (args, data) = crate::c01::split_raw(case);
    let mut c = Choice::new(args);
    check(data, "raw_file", "", &[b"memset".to_vec(), b"use_memset".to_vec()], &mut c, obs, false)
}

fn check(data_in: &[u8], mode: &'static str, note: &str, names: &[Vec<u8>], c: &mut Choice, obs: &mut Obs, linked: bool) -> Result<(), String> {
    let data = &data_in.to_vec();
    let mut c = c.clone();
    struct Inp<'a> {
        mode: &'static str,
        note: &'a str,
    }
    let inp = Inp { mode, note };
    let (chunks, intr) = stream::gen_reader_behaviour(&mut c, 1);
    let names: Vec<Vec<u8>> = names.to_vec();
    let e = AnyEndian::Little;
    let rb = open_as(e, data);
    let pos0 = stream::gen_initial_pos(&mut c, data.len());
    // a fifth of the cases: one transient hard I/O error somewhere after opening (a reader may fail once and recover);
    // the call it hits may fail, but whenever both parsers succeed the content must still be identical
    let fault_at: Option<u64> = if c.u8() >= 205 { Some(6 + c.below(60)) } else { None };
    let faults = fault_at.map(|at| vec![verif_model::io::Fault { at, kind: verif_model::io::FaultKind::Error, permanent: false, ekind: c.below(8) as u8 }]).unwrap_or_default();
    let reader = Reader::with(data.clone(), chunks.clone(), intr, faults).at_position(pos0);
    let rs = open_stream_as(e, reader.clone());
    let ctx = format!("{}-byte {} input ({}), reader chunks {:?} interrupt_every {} initial position {}", data.len(), inp.mode, inp.note, chunks, intr, pos0);
    let (fb, mut fs) = match (rb, rs) {
        (Ok(a), Ok(b)) => (a, b),
        (Err(_), Err(_)) => {
            obs.label("both_reject");
            obs.label(inp.mode);
            obs.describe(|| json!({"input": ctx, "opened": false}));
            return Ok(());
        }
        (Ok(_), Err(_)) if reader.fired() > 0 => {
            obs.label("fault_during_open");
            return Ok(());
        }
        (Ok(_), Err(er)) => return Err(format!("{}: the slice opens but open_stream fails with {}", ctx, err_name(&er))),
        (Err(er), Ok(_)) => return Err(format!("{}: open_stream succeeds but the slice fails with {}", ctx, err_name(&er))),
    };
    // identical headers
    let mut d1 = queries::Dg::new();
    let mut d2 = queries::Dg::new();
    if queries::eval_bytes(&fb, &Q::Ehdr) != queries::eval_stream(&mut fs, &Q::Ehdr).unwrap() {
        return Err(format!("{}: file headers differ: slice {:?} stream {:?}", ctx, fb.ehdr, fs.ehdr));
    }
    let nsec = fb.section_headers().map(|t| t.len()).unwrap_or(0);
    let nseg = fb.segments().map(|t| t.len()).unwrap_or(0);
    if fs.section_headers().len() != nsec || fs.segments().len() != nseg {
        return Err(format!("{}: header counts differ: slice {}/{} stream {}/{}", ctx, nsec, nseg, fs.section_headers().len(), fs.segments().len()));
    }
    if let Some(t) = fb.section_headers() {
        for (i, h) in t.iter().enumerate().take(3000) {
            if fs.section_headers()[i] != h {
                return Err(format!("{}: section header {} differs: slice {:?} stream {:?}", ctx, i, h, fs.section_headers()[i]));
            }
            d1.u(h.sh_offset);
        }
    }
    if let Some(t) = fb.segments() {
        for (i, h) in t.iter().enumerate().take(3000) {
            if fs.segments()[i] != h {
                return Err(format!("{}: program header {} differs: slice {:?} stream {:?}", ctx, i, h, fs.segments()[i]));
            }
            d2.u(h.p_offset);
        }
    }
    let empty_table = fb.section_headers().map(|t| t.is_empty()).unwrap_or(false);
    // (the 16 MiB objects are asked for their linked tables only: the generic content digests walk every offset)
    let huge = mode == "huge_strtab";
    let (mut ops, shared) = if huge { (vec![], false) } else { stream::gen_ops(&mut c, nsec, nseg, data.len(), &names, 40) };
    // by-name queries taken from the file's own section-name table (incl. queries with an interior NUL spanning two
    // adjacent names), mixed into the history
    for q in if huge { vec![] } else { stream::file_name_queries(data, &mut c, 3) } {
        let at = c.idx(ops.len() + 1);
        ops.insert(at, q);
    }
    // when the choice sequence ran out while the file was generated (large files consume it), the generated history
    // degenerates; the linked-table accessors are then asked explicitly
    if c.exhausted() || nsec >= 0xff00 || linked {
        ops.extend([Q::Symtab, Q::Dynsym, Q::Dynamic, Q::VerReq(1), Q::VerDef(1), Q::VerReq(2), Q::Symtab]);
    }
    let mut first: Vec<Option<QR>> = vec![];
    let mut skipped = 0u64;
    let mut compared = 0u64;
    for (k, q) in ops.iter().enumerate() {
        let fired_before = reader.fired();
        let rs = queries::eval_stream(&mut fs, q);
        let faulted = reader.fired() > fired_before;
        first.push(rs);
        if faulted {
            // the injected error hit this call: it may fail; it must not return content
            if let Some(Ok(x)) = rs {
                let sb = queries::eval_bytes(&fb, q);
                if stream::in_scope(&fb, q) && !empty_table && (matches!(sb, Ok(y) if y != x) || (sb.is_err() && stream::exact_coincidence(q))) {
                    return Err(format!("{}: op #{} {:?} was hit by an I/O error and still answered Ok({:#x}); the slice parser answers {:?}", ctx, k, q, x, sb));
                }
            }
            skipped += 1;
        } else if empty_table || !stream::in_scope(&fb, q) {
            skipped += 1;
        } else if let Some(rs) = rs {
            let rbq = queries::eval_bytes(&fb, q);
            let bad = match (rbq, rs) {
                (Ok(a), Ok(b)) => a != b,
                (Ok(_), Err(())) => true,
                (Err(()), Ok(_)) => stream::exact_coincidence(q),
                (Err(()), Err(())) => false,
            };
            if bad {
                return Err(format!("{}: op #{} {:?} (after {:?}): slice answers {:?}, stream answers {:?}", ctx, k, q, &ops[..k.min(ops.len())].iter().rev().take(4).collect::<Vec<_>>(), rbq, rs));
            }
            compared += 1;
        }
        // re-query an earlier op: the answer must be unchanged
        if k > 0 {
            let j = c.idx(k + 1);
            let fb2 = reader.fired();
            let again = queries::eval_stream(&mut fs, &ops[j]);
            let fault_involved = fault_at.is_some() && (reader.fired() > fb2 || matches!(first[j], Some(Err(()))));
            if fault_involved {
                // after a failure a repeated call fails again or gives the slice parser's answer
                if let Some(Ok(x)) = again {
                    let sb = queries::eval_bytes(&fb, &ops[j]);
                    if stream::in_scope(&fb, &ops[j]) && !empty_table && (matches!(sb, Ok(y) if y != x) || (sb.is_err() && stream::exact_coincidence(&ops[j]))) {
                        return Err(format!("{}: op #{} {:?}, repeated after an I/O error, answers Ok({:#x}); the slice parser answers {:?}", ctx, j, ops[j], x, sb));
                    }
                }
            } else if again != first[j] {
                return Err(format!("{}: op #{} {:?} answered {:?} at first and {:?} when repeated after op #{} {:?}", ctx, j, ops[j], first[j], again, k, q));
            }
        }
    }
    obs.count("ops_compared", compared);
    obs.count("ops_out_of_scope", skipped);
    obs.label("opened");
    obs.label(inp.mode);
    obs.label_if(!chunks.is_empty(), "chunked_reader");
    obs.label_if(intr != 0, "interrupting_reader");
    obs.label_if(fault_at.is_some(), "one_transient_io_error");
    obs.label_if(shared, "ranges_sharing_one_endpoint_or_repeated");
    obs.label_if(nsec >= 0xff00, "0xff00_or_more_sections");
    obs.label_if(empty_table, "present_but_empty_section_table");
    if ops.len() >= 3 && shared {
        obs.nontrivial();
    }
    obs.key = fnv64(data) ^ fnv64(format!("{:?}{:?}{}", ops, chunks, intr).as_bytes()).rotate_left(17);
    obs.describe(|| json!({"input": ctx, "sections": nsec, "segments": nseg, "ops": ops.iter().map(|q| format!("{:?}", q)).collect::<Vec<_>>(), "ops_compared": compared}));
    Ok(())
}

pub fn property() -> Property {
    Property {
        id: "C07",
        level: "exploration",
        rule: "cases are (file bytes from the three input modes: rich generated files with overrides/corruption, mutated linker-produced samples, raw bytes) x (an operation sequence of 0..40 stream calls drawn with repetition from counts, section_data, section_data_as_strtab/rels/relas/notes, segment_data_as_notes, section names, section_header_by_name, symbol_table, dynamic_symbol_table, dynamic, symbol-version requirement/definition queries, on the file's own headers and on fabricated headers whose (start,end) come from a pool of five boundaries so that different ranges share a start or an end and recur) (8% of the histories: 60..150 calls over many distinct fabricated ranges before the multi-range accessors) x (a reader delivering chunks of 1..n bytes and/or ErrorKind::Interrupted every n-th read, handed over with its cursor at 0, 4, 16 or a random position; in a fifth of the cases one transient hard I/O error is injected after opening: the call it hits may fail, but whenever both parsers succeed - also on a later repetition - the content must be identical). Oracle = the slice parser on the same bytes: open_stream Ok iff minimal_parse Ok; identical file header, every section header and every program header; each stream op is Ok whenever the slice op is Ok and then has an equal content digest; for section_data, both symbol tables, symbol-version queries and segment notes Ok/Err coincide exactly; after every op a randomly chosen earlier op is repeated and must answer as before. One case in about 16 000 is an object whose .symtab links to a string table of 16..18 MiB. Out of scope exactly as the statement says (skipped, counted): ops on SHF_COMPRESSED sections and files whose section table is present but empty. Non-trivial: opened, >=3 ops, and two fabricated ranges sharing exactly one endpoint or a repeated range; distinct by (file, ops, reader) hash.",
        assumptions: &["digests compare content, not error kinds", "the stream's dynamic() legitimately skips the sh_entsize check: only slice Ok => stream Ok is required there"],
        subs: vec![Sub::new("stream_diff", oracle, 3200, 800_000, 30_000_000).shrink(2000), Sub::new("stream_diff_raw", oracle_raw, 600, 20_000, 200_000).shrink(2000)],
        extras: vec![crate::fuzz::c07_campaign],
    }
}
