//! C06 — slice parser performs zero heap allocations; crate builds in every feature set.
use crate::c01;
use crate::common::*;
use std::process::Command;
use verif_model::run::ExtraOutcome;

fn repo() -> String {
    std::env::var("VERIF_REPO").unwrap_or_else(|_| "/repo".to_string())
}

fn run_cargo(args: &[&str], target_dir: &str) -> (bool, String) {
    let out = Command::new("cargo").args(args).current_dir(repo()).env("CARGO_NET_OFFLINE", "true").env("CARGO_TARGET_DIR", target_dir).env_remove("RUSTFLAGS").output();
    match out {
        Ok(o) => {
            let mut s = String::from_utf8_lossy(&o.stderr).to_string();
            if s.len() > 3000 {
                s = s[s.len() - 3000..].to_string();
            }
            (o.status.success(), s)
        }
        Err(e) => (false, format!("could not run cargo: {}", e)),
    }
}

/// The feature power set: every subset must `cargo check` on the host; every subset without `std` must
/// build for a bare-metal target with only `core` (plus `alloc` when that feature is on) available.
fn features(_tier: Tier, _seed: u64) -> ExtraOutcome {
    let root = verif_model::run::verif_root();
    let tdir_host = root.join("harness/target/c06-host").to_string_lossy().to_string();
    let tdir_none = root.join("harness/target/c06-none").to_string_lossy().to_string();
    let feats = ["alloc", "std", "to_str"];
    let mut samples = vec![];
    let mut failure = None;
    let mut inconclusive = None;
    let mut n = 0u64;
    let mut detail = vec![];
    for mask in 0..8u32 {
        let set: Vec<&str> = (0..3).filter(|i| mask & (1 << i) != 0).map(|i| feats[i]).collect();
        let fs = set.join(",");
        let mut args = vec!["check", "--lib", "--offline", "--no-default-features"];
        if !fs.is_empty() {
            args.push("--features");
            args.push(&fs);
        }
        let (ok, err) = run_cargo(&args, &tdir_host);
        n += 1;
        let cmd = format!("cargo {}", args.join(" "));
        detail.push(json!({"cmd": cmd, "ok": ok}));
        if samples.len() < 4 {
            samples.push(json!({"features": fs, "cmd": cmd, "ok": ok}));
        }
        if !ok && failure.is_none() {
            failure = Some((format!("the crate does not compile with features {{{}}}: {}", fs, err.lines().filter(|l| l.starts_with("error")).take(3).collect::<Vec<_>>().join(" | ")), json!({"features": fs, "cmd": cmd, "stderr_tail": err})));
        }
        if !set.contains(&"std") {
            let bs = if set.contains(&"alloc") { "-Zbuild-std=core,alloc" } else { "-Zbuild-std=core" };
            let mut args = vec!["+nightly", "build", "--lib", bs, "--target", "x86_64-unknown-none", "--no-default-features"];
            if !fs.is_empty() {
                args.push("--features");
                args.push(&fs);
            }
            let (ok, err) = run_cargo(&args, &tdir_none);
            n += 1;
            let cmd = format!("cargo {}", args.join(" "));
            detail.push(json!({"cmd": cmd, "ok": ok}));
            samples.push(json!({"features": fs, "cmd": cmd, "ok": ok}));
            if !ok {
                let toolchain_problem = err.contains("toolchain") && err.contains("not installed") || err.contains("can't find crate for `core`") && !err.contains("elf");
                if toolchain_problem {
                    inconclusive = Some(format!("bare-metal build could not run here: {}", err.lines().last().unwrap_or("")));
                } else if failure.is_none() {
                    failure = Some((format!("with features {{{}}} the crate does not build for a target that has only {}: {}", fs, &bs[12..], err.lines().filter(|l| l.starts_with("error")).take(3).collect::<Vec<_>>().join(" | ")), json!({"features": fs, "cmd": cmd, "stderr_tail": err})));
                }
            }
        }
    }
    ExtraOutcome { name: "features", evaluations: n, nontrivial: n, samples, detail: json!(detail), failure, inconclusive }
}

pub fn property() -> Property {
    Property {
        id: "C06",
        level: "exploration",
        rule: "noalloc: the C01 domain (rich files with overrides/corruption, mutated sample objects, raw bytes x walker arguments); a counting global allocator opens a per-thread window around the whole allocation-free walk of the slice-parser API (open under all specs, every accessor, lazy table, iterator, hash lookup, symbol-version query, stand-alone constructor, Display/Debug of every ParseError into a stack sink); oracle: allocation count == 0 on Ok and Err paths alike. Non-trivial: the input opened or a stand-alone parser got past validation; distinct by (input,args) hash. features: the power set of {alloc,std,to_str} enumerated exhaustively: `cargo check --no-default-features --features S` for all 8 subsets on the host, and for the 4 subsets without std a build for x86_64-unknown-none with -Zbuild-std=core[,alloc], where any reference to std (or to alloc when the feature is off) cannot resolve.",
        assumptions: &["the *_to_string helpers return String by design and are exercised outside the allocation window (C19)", "feature builds use the nightly toolchain's build-std for the bare-metal target"],
        subs: vec![Sub::new("noalloc", c01::oracle_noalloc, 3000, 250_000, 8_000_000).shrink(3000), Sub::new("noalloc_raw", c01::oracle_noalloc_raw, 600, 20_000, 200_000).shrink(3000)],
        extras: vec![features, crate::fuzz::c06_campaign],
    }
}
