//! Expected crate-side values for model structures (what the gABI says the native representation of
//! the encoded fields is): unsigned 32-bit fields zero-extended, d_tag and ELF32 r_addend sign-extended,
//! r_info split by the ELF32_R_*/ELF64_R_* macros.
use crate::common::*;
use elf::compression::CompressionHeader;
use elf::dynamic::Dyn;
use elf::relocation::{Rel, Rela};
use elf::section::SectionHeader;
use elf::segment::ProgramHeader;
use elf::symbol::Symbol;
use verif_model::elfw as m;

pub fn shdr(x: &m::Shdr, e: Enc) -> SectionHeader {
    let x = x.as_written(e);
    SectionHeader { sh_name: x.sh_name, sh_type: x.sh_type, sh_flags: x.sh_flags, sh_addr: x.sh_addr, sh_offset: x.sh_offset, sh_size: x.sh_size, sh_link: x.sh_link, sh_info: x.sh_info, sh_addralign: x.sh_addralign, sh_entsize: x.sh_entsize }
}
pub fn phdr(x: &m::Phdr, e: Enc) -> ProgramHeader {
    let x = x.as_written(e);
    ProgramHeader { p_type: x.p_type, p_offset: x.p_offset, p_vaddr: x.p_vaddr, p_paddr: x.p_paddr, p_filesz: x.p_filesz, p_memsz: x.p_memsz, p_flags: x.p_flags, p_align: x.p_align }
}
pub fn sym(x: &m::Sym, e: Enc) -> Symbol {
    let x = x.as_written(e);
    Symbol { st_name: x.st_name, st_shndx: x.st_shndx, st_info: x.st_info, st_other: x.st_other, st_value: x.st_value, st_size: x.st_size }
}
pub fn rel(x: &m::Rel, e: Enc) -> Rel {
    let mk = e.word_mask();
    let (s, t) = m::r_split(e, x.r_info & mk);
    Rel { r_offset: x.r_offset & mk, r_sym: s, r_type: t }
}
pub fn rela(x: &m::Rela, e: Enc) -> Rela {
    let mk = e.word_mask();
    let (s, t) = m::r_split(e, x.r_info & mk);
    let addend = if e.c64 { x.r_addend } else { x.r_addend as i32 as i64 };
    Rela { r_offset: x.r_offset & mk, r_sym: s, r_type: t, r_addend: addend }
}
/// (d_tag, d_val) expected for a dynamic entry
pub fn dyn_expect(x: &m::Dyn, e: Enc) -> (i64, u64) {
    if e.c64 {
        (x.d_tag, x.d_un)
    } else {
        (x.d_tag as i32 as i64, x.d_un & 0xffff_ffff)
    }
}
pub fn dyn_eq(got: &Dyn, x: &m::Dyn, e: Enc) -> bool {
    let (t, v) = dyn_expect(x, e);
    got.d_tag == t && got.d_val() == v && got.d_ptr() == v
}
pub fn chdr(x: &m::Chdr, e: Enc) -> CompressionHeader {
    let mk = e.word_mask();
    CompressionHeader { ch_type: x.ch_type, ch_size: x.ch_size & mk, ch_addralign: x.ch_addralign & mk }
}

// ---- generators of model entries from a choice sequence (field values: boundary / patterned / raw)
pub fn gen_shdr(c: &mut Choice) -> m::Shdr {
    m::Shdr { sh_name: c.field(32) as u32, sh_type: c.field(32) as u32, sh_flags: c.field(64), sh_addr: c.field(64), sh_offset: c.field(64), sh_size: c.field(64), sh_link: c.field(32) as u32, sh_info: c.field(32) as u32, sh_addralign: c.field(64), sh_entsize: c.field(64) }
}
pub fn gen_phdr(c: &mut Choice) -> m::Phdr {
    m::Phdr { p_type: c.field(32) as u32, p_flags: c.field(32) as u32, p_offset: c.field(64), p_vaddr: c.field(64), p_paddr: c.field(64), p_filesz: c.field(64), p_memsz: c.field(64), p_align: c.field(64) }
}
pub fn gen_sym(c: &mut Choice) -> m::Sym {
    m::Sym { st_name: c.field(32) as u32, st_info: c.field(8) as u8, st_other: c.field(8) as u8, st_shndx: c.field(16) as u16, st_value: c.field(64), st_size: c.field(64) }
}
pub fn gen_rel(c: &mut Choice) -> m::Rel {
    m::Rel { r_offset: c.field(64), r_info: c.field(64) }
}
pub fn gen_rela(c: &mut Choice) -> m::Rela {
    m::Rela { r_offset: c.field(64), r_info: c.field(64), r_addend: c.field(64) as i64 }
}
pub fn gen_dyn(c: &mut Choice) -> m::Dyn {
    m::Dyn { d_tag: c.field(64) as i64, d_un: c.field(64) }
}
pub fn gen_chdr(c: &mut Choice) -> m::Chdr {
    m::Chdr { ch_type: c.field(32) as u32, ch_reserved: c.field(32) as u32, ch_size: c.field(64), ch_addralign: c.field(64) }
}

/// Field-by-field equality of the crate's structures. The oracles do not rely on the crate's own `PartialEq`
/// impls: a change to one of those (say, an `Ord`-consistent `PartialEq` that ignores a field) must not blind them.
pub trait FieldEq {
    fn field_eq(&self, o: &Self) -> bool;
}
macro_rules! field_eq {
    ($t:ty; $($f:ident),+) => {
        impl FieldEq for $t {
            fn field_eq(&self, o: &Self) -> bool {
                true $(&& self.$f == o.$f)+
            }
        }
    };
}
field_eq!(SectionHeader; sh_name, sh_type, sh_flags, sh_addr, sh_offset, sh_size, sh_link, sh_info, sh_addralign, sh_entsize);
field_eq!(ProgramHeader; p_type, p_offset, p_vaddr, p_paddr, p_filesz, p_memsz, p_flags, p_align);
field_eq!(Symbol; st_name, st_shndx, st_info, st_other, st_value, st_size);
field_eq!(Rel; r_offset, r_sym, r_type);
field_eq!(Rela; r_offset, r_sym, r_type, r_addend);
field_eq!(CompressionHeader; ch_type, ch_size, ch_addralign);
field_eq!(elf::hash::SysVHashHeader; nbucket, nchain);
field_eq!(elf::hash::GnuHashHeader; nbucket, table_start_idx, nbloom, nshift);
field_eq!(elf::note::NoteGnuAbiTag; os, major, minor, subminor);
impl FieldEq for u32 {
    fn field_eq(&self, o: &Self) -> bool {
        self == o
    }
}
impl FieldEq for u64 {
    fn field_eq(&self, o: &Self) -> bool {
        self == o
    }
}
impl<E: EndianParse + PartialEq> FieldEq for elf::file::FileHeader<E> {
    fn field_eq(&self, o: &Self) -> bool {
        self.class == o.class
            && self.endianness == o.endianness
            && self.version == o.version
            && self.osabi == o.osabi
            && self.abiversion == o.abiversion
            && self.e_type == o.e_type
            && self.e_machine == o.e_machine
            && self.e_entry == o.e_entry
            && self.e_phoff == o.e_phoff
            && self.e_shoff == o.e_shoff
            && self.e_flags == o.e_flags
            && self.e_ehsize == o.e_ehsize
            && self.e_phentsize == o.e_phentsize
            && self.e_phnum == o.e_phnum
            && self.e_shentsize == o.e_shentsize
            && self.e_shnum == o.e_shnum
            && self.e_shstrndx == o.e_shstrndx
    }
}
