//! C02 — every ELF structure decodes exactly per the gABI layout for its class/order.
use crate::common::*;
use crate::conv;
use crate::with_endian;
use elf::compression::CompressionHeader;
use elf::dynamic::Dyn;
use elf::file::FileHeader;
use elf::gnu_symver::{VerDef, VerDefAux, VerDefIterator, VerNeed, VerNeedAux, VerNeedIterator, VersionIndex};
use elf::hash::{GnuHashHeader, SysVHashHeader};
use elf::note::NoteGnuAbiTag;
use elf::relocation::{Rel, Rela};
use elf::section::SectionHeader;
use elf::segment::ProgramHeader;
use elf::symbol::Symbol;
use std::fmt::Debug;
use verif_model::elfw as m;

const STRUCTS: [&str; 18] = ["FileHeader", "SectionHeader", "ProgramHeader", "Symbol", "Rel", "Rela", "Dyn", "CompressionHeader", "SysVHashHeader", "GnuHashHeader", "VersionIndex", "VerDef", "VerDefAux", "VerNeed", "VerNeedAux", "NoteGnuAbiTag", "u32", "u64"];

/// non-triviality: some field has its top bit set and all same-width fields hold pairwise different values
fn interesting(fields: &[(u32, u64)]) -> bool {
    let top = fields.iter().any(|(b, v)| (v >> (b - 1)) & 1 == 1);
    let mut distinct = true;
    for i in 0..fields.len() {
        for j in 0..i {
            if fields[i].0 == fields[j].0 && fields[i].1 == fields[j].1 {
                distinct = false;
            }
        }
    }
    top && distinct
}

fn parse_embedded<E: EndianParse, P: ParseAt + Debug>(e: E, class: Class, pre: &[u8], body: &[u8], post: &[u8], abi_size: usize, name: &str, ok: &dyn Fn(&P) -> Result<(), String>) -> Result<(), String> {
    let mut buf = Vec::with_capacity(pre.len() + body.len() + post.len());
    buf.extend_from_slice(pre);
    buf.extend_from_slice(body);
    buf.extend_from_slice(post);
    if body.len() != abi_size {
        return Err(format!("harness: writer emitted {} bytes for {} (ABI size {})", body.len(), name, abi_size));
    }
    if P::size_for(class) != abi_size {
        return Err(format!("{}::size_for({:?}) = {}, ABI size is {}", name, class, P::size_for(class), abi_size));
    }
    let mut off = pre.len();
    let v = P::parse_at(e, class, &mut off, &buf).map_err(|er| format!("{}: parse_at at offset {} of {} bytes failed with {}", name, pre.len(), buf.len(), err_name(&er)))?;
    ok(&v).map_err(|s| format!("{} parse_at(offset {}): {} ; bytes={}", name, pre.len(), s, hex(body)))?;
    if off != pre.len() + abi_size {
        return Err(format!("{}: parse_at advanced the offset by {}, ABI size is {}", name, off - pre.len(), abi_size));
    }
    // the same value through the lazy table and the iterator
    let t = ParsingTable::<E, P>::new(e, class, &buf[pre.len()..pre.len() + abi_size]);
    let g = t.get(0).map_err(|er| format!("{}: ParsingTable::get(0) failed with {}", name, err_name(&er)))?;
    ok(&g).map_err(|s| format!("{} via ParsingTable::get(0): {}", name, s))?;
    let mut it = ParsingIterator::<E, P>::new(e, class, &buf[pre.len()..]);
    match it.next() {
        Some(x) => ok(&x).map_err(|s| format!("{} via ParsingIterator: {}", name, s))?,
        None => return Err(format!("{}: ParsingIterator yielded nothing over a whole entry", name)),
    }
    // through the Iterator methods of a table whose bytes end in a partial entry (the padding that follows): the one
    // whole entry is the first, the last and the only item
    let ragged = &buf[pre.len()..pre.len() + abi_size + post.len().min(abi_size.saturating_sub(1))];
    let t2 = ParsingTable::<E, P>::new(e, class, ragged);
    match (t2.iter().last(), t2.iter().count(), t2.iter().nth(0), t2.iter().nth(1)) {
        (Some(l), 1, Some(f), None) => {
            ok(&l).map_err(|s| format!("{} via ParsingTable::iter().last() over {} bytes: {}", name, ragged.len(), s))?;
            ok(&f).map_err(|s| format!("{} via ParsingTable::iter().nth(0) over {} bytes: {}", name, ragged.len(), s))?;
        }
        (l, n, f, x) => return Err(format!("{}: a table over {} bytes (entry size {}): last() = {:?}, count() = {}, nth(0) = {:?}, nth(1) = {:?}", name, ragged.len(), abi_size, l, n, f, x)),
    }
    // nth() on a PARTLY CONSUMED iterator counts from the cursor: over two copies of the entry, next() then nth(0) is the
    // second copy and the iterator is then exhausted
    let mut twice = body.to_vec();
    twice.extend_from_slice(body);
    let t3 = ParsingTable::<E, P>::new(e, class, &twice);
    let mut it3 = t3.iter();
    match (it3.next(), it3.nth(0), it3.next(), t3.iter().skip(1).count()) {
        (Some(a), Some(b), None, 1) => {
            ok(&a).map_err(|s| format!("{} via next() on a two-entry table: {}", name, s))?;
            ok(&b).map_err(|s| format!("{} via next() then nth(0) on a two-entry table: {}", name, s))?;
        }
        (a, b, c3, n) => return Err(format!("{}: two-entry table: next() = {:?}, then nth(0) = {:?}, then next() = {:?}; skip(1).count() = {}", name, a, b, c3, n)),
    }
    // one byte short: must fail
    if abi_size > 0 {
        let mut o2 = pre.len();
        let short = &buf[..pre.len() + abi_size - 1];
        if let Ok(x) = P::parse_at(e, class, &mut o2, short) {
            return Err(format!("{}: parse_at succeeded ({:?}) on a buffer one byte shorter than the structure", name, x));
        }
    }
    Ok(())
}

fn cmp<T: conv::FieldEq + Debug>(got: &T, want: &T) -> Result<(), String> {
    if got.field_eq(want) {
        Ok(())
    } else {
        Err(format!("decoded {:?}, the encoded field values are {:?}", got, want))
    }
}

fn oracle_struct(case: &[u8], obs: &mut Obs) -> Result<(), String> {
    let mut c = Choice::new(case);
    let s = c.below(18) as usize;
    let enc = ALL_ENC[c.below(4) as usize];
    let spec: u8 = specs_for(enc.le)[c.below(2) as usize];
    let class = class_of(enc);
    let npre = c.below(20) as usize;
    let npost = c.below(6) as usize;
    let pre = c.bytes(npre);
    let post = c.bytes(npost);
    let wm = enc.word_mask();
    let wb = enc.word_bits();
    let mut fields: Vec<(u32, u64)> = vec![];
    let name = STRUCTS[s];
    let r: Result<(), String> = with_endian!(spec, |e| match s {
        0 => {
            let mut h = m::Ehdr { ident: m::ident(enc, c.u8(), c.u8()), e_type: c.field(16) as u16, e_machine: c.field(16) as u16, e_version: c.field(32) as u32, e_entry: c.field(wb), e_phoff: c.field(wb), e_shoff: c.field(wb), e_flags: c.field(32) as u32, e_ehsize: c.field(16) as u16, e_phentsize: c.field(16) as u16, e_phnum: c.field(16) as u16, e_shentsize: c.field(16) as u16, e_shnum: c.field(16) as u16, e_shstrndx: c.field(16) as u16 };
            for i in 9..16 {
                h.ident[i] = c.u8();
            }
            fields = vec![(16, h.e_type as u64), (16, h.e_machine as u64), (32, h.e_version as u64), (wb, h.e_entry), (wb, h.e_phoff), (wb, h.e_shoff), (32, h.e_flags as u64), (16, h.e_ehsize as u64), (16, h.e_phentsize as u64), (16, h.e_phnum as u64), (16, h.e_shentsize as u64), (16, h.e_shnum as u64), (16, h.e_shstrndx as u64)];
            let bytes = m::enc_bytes(enc, |w| h.write(w));
            if bytes.len() != m::ehdr_size(enc) {
                return Err("harness: ehdr size".into());
            }
            let want = |e2| FileHeader { class, endianness: e2, version: h.e_version, osabi: h.ident[7], abiversion: h.ident[8], e_type: h.e_type, e_machine: h.e_machine, e_entry: h.e_entry, e_phoff: h.e_phoff, e_shoff: h.e_shoff, e_flags: h.e_flags, e_ehsize: h.e_ehsize, e_phentsize: h.e_phentsize, e_phnum: h.e_phnum, e_shentsize: h.e_shentsize, e_shnum: h.e_shnum, e_shstrndx: h.e_shstrndx };
            let id = elf::file::parse_ident(&bytes[..16]).map_err(|er| format!("parse_ident failed with {}", err_name(&er)))?;
            let _: &(_, Class, u8, u8) = &id;
            if id != (e, class, h.ident[7], h.ident[8]) {
                return Err(format!("parse_ident returned {:?}", id));
            }
            let mut tail = bytes[16..].to_vec();
            tail.extend_from_slice(&post);
            let got = FileHeader::parse_tail(id, &tail).map_err(|er| format!("parse_tail failed with {}", err_name(&er)))?;
            cmp(&got, &want(e)).map_err(|s| format!("FileHeader::parse_tail: {}", s))?;
            if FileHeader::parse_tail(id, &tail[..bytes.len() - 17]).is_ok() {
                return Err("FileHeader::parse_tail succeeded on a tail one byte short".into());
            }
            // through ElfBytes.ehdr (tables absent so that opening succeeds whatever the counts say)
            let mut h2 = h.clone();
            h2.e_phoff = 0;
            h2.e_shoff = 0;
            let mut b2 = m::enc_bytes(enc, |w| h2.write(w));
            b2.extend_from_slice(&post);
            let mut w2 = want(e);
            w2.e_phoff = 0;
            w2.e_shoff = 0;
            let f = elf::ElfBytes::minimal_parse(&b2).map_err(|er| format!("ElfBytes::minimal_parse of a bare header failed with {}", err_name(&er)))?;
            cmp(&f.ehdr, &w2).map_err(|s| format!("ElfBytes.ehdr: {}", s))?;
            let f2 = elf::ElfStream::open_stream(std::io::Cursor::new(&b2)).map_err(|er| format!("ElfStream::open_stream of a bare header failed with {}", err_name(&er)))?;
            cmp(&f2.ehdr, &w2).map_err(|s| format!("ElfStream.ehdr: {}", s))
        }
        1 => {
            let x = conv::gen_shdr(&mut c);
            fields = vec![(32, x.sh_name as u64), (32, x.sh_type as u64), (wb, x.sh_flags & wm), (wb, x.sh_addr & wm), (wb, x.sh_offset & wm), (wb, x.sh_size & wm), (32, x.sh_link as u64), (32, x.sh_info as u64), (wb, x.sh_addralign & wm), (wb, x.sh_entsize & wm)];
            let want = conv::shdr(&x, enc);
            parse_embedded::<_, SectionHeader>(e, class, &pre, &m::enc_bytes(enc, |w| x.write(w)), &post, m::shdr_size(enc), name, &|g| cmp(g, &want))
        }
        2 => {
            let x = conv::gen_phdr(&mut c);
            fields = vec![(32, x.p_type as u64), (32, x.p_flags as u64), (wb, x.p_offset & wm), (wb, x.p_vaddr & wm), (wb, x.p_paddr & wm), (wb, x.p_filesz & wm), (wb, x.p_memsz & wm), (wb, x.p_align & wm)];
            let want = conv::phdr(&x, enc);
            parse_embedded::<_, ProgramHeader>(e, class, &pre, &m::enc_bytes(enc, |w| x.write(w)), &post, m::phdr_size(enc), name, &|g| cmp(g, &want))
        }
        3 => {
            let x = conv::gen_sym(&mut c);
            fields = vec![(32, x.st_name as u64), (8, x.st_info as u64), (8, x.st_other as u64), (16, x.st_shndx as u64), (wb, x.st_value & wm), (wb, x.st_size & wm)];
            let want = conv::sym(&x, enc);
            parse_embedded::<_, Symbol>(e, class, &pre, &m::enc_bytes(enc, |w| x.write(w)), &post, m::sym_size(enc), name, &|g| {
                cmp(g, &want)?;
                if g.st_bind() != x.st_info >> 4 || g.st_symtype() != x.st_info & 0xf || g.st_vis() != x.st_other & 3 || g.is_undefined() != (x.st_shndx == 0) {
                    return Err(format!("derived accessors of {:?} disagree with ELF_ST_BIND/ELF_ST_TYPE/ELF_ST_VISIBILITY", g));
                }
                Ok(())
            })
        }
        4 => {
            let x = conv::gen_rel(&mut c);
            fields = vec![(wb, x.r_offset & wm), (wb, x.r_info & wm)];
            let want = conv::rel(&x, enc);
            parse_embedded::<_, Rel>(e, class, &pre, &m::enc_bytes(enc, |w| x.write(w)), &post, m::rel_size(enc), name, &|g| cmp(g, &want))
        }
        5 => {
            let x = conv::gen_rela(&mut c);
            fields = vec![(wb, x.r_offset & wm), (wb, x.r_info & wm), (wb, x.r_addend as u64 & wm)];
            let want = conv::rela(&x, enc);
            parse_embedded::<_, Rela>(e, class, &pre, &m::enc_bytes(enc, |w| x.write(w)), &post, m::rela_size(enc), name, &|g| cmp(g, &want))
        }
        6 => {
            let x = conv::gen_dyn(&mut c);
            fields = vec![(wb, x.d_tag as u64 & wm), (wb, x.d_un & wm)];
            parse_embedded::<_, Dyn>(e, class, &pre, &m::enc_bytes(enc, |w| x.write(w)), &post, m::dyn_size(enc), name, &|g| {
                if conv::dyn_eq(g, &x, enc) {
                    Ok(())
                } else {
                    Err(format!("decoded {:?} (d_val {:#x}), encoded (d_tag, d_un) = {:?}", g, g.d_val(), conv::dyn_expect(&x, enc)))
                }
            })
        }
        7 => {
            let x = conv::gen_chdr(&mut c);
            fields = vec![(32, x.ch_type as u64), (wb, x.ch_size & wm), (wb, x.ch_addralign & wm)];
            let want = conv::chdr(&x, enc);
            parse_embedded::<_, CompressionHeader>(e, class, &pre, &m::enc_bytes(enc, |w| x.write(w)), &post, m::chdr_size(enc), name, &|g| cmp(g, &want))
        }
        8 => {
            let (a, b) = (c.field(32) as u32, c.field(32) as u32);
            fields = vec![(32, a as u64), (32, b as u64)];
            let want = SysVHashHeader { nbucket: a, nchain: b };
            parse_embedded::<_, SysVHashHeader>(e, class, &pre, &m::enc_bytes(enc, |w| {
                w.u32(a);
                w.u32(b)
            }), &post, 8, name, &|g| cmp(g, &want))
        }
        9 => {
            let v = [c.field(32) as u32, c.field(32) as u32, c.field(32) as u32, c.field(32) as u32];
            fields = v.iter().map(|x| (32, *x as u64)).collect();
            let want = GnuHashHeader { nbucket: v[0], table_start_idx: v[1], nbloom: v[2], nshift: v[3] };
            parse_embedded::<_, GnuHashHeader>(e, class, &pre, &m::enc_bytes(enc, |w| {
                for x in v {
                    w.u32(x)
                }
            }), &post, 16, name, &|g| cmp(g, &want))
        }
        10 => {
            let v = c.field(16) as u16;
            fields = vec![(16, v as u64)];
            parse_embedded::<_, VersionIndex>(e, class, &pre, &m::enc_bytes(enc, |w| w.u16(v)), &post, 2, name, &|g| {
                if g.0 == v && g.index() == v & 0x7fff && g.is_hidden() == (v & 0x8000 != 0) && g.is_local() == (v & 0x7fff == 0) && g.is_global() == (v & 0x7fff == 1) {
                    Ok(())
                } else {
                    Err(format!("decoded {:?} for versym word {:#x}", g, v))
                }
            })
        }
        11 => {
            let x = m::Verdef { vd_version: 1, vd_flags: c.field(16) as u16, vd_ndx: c.field(16) as u16, vd_cnt: c.field(16) as u16, vd_hash: c.field(32) as u32, vd_aux: c.field(32) as u32, vd_next: c.field(32) as u32 };
            fields = vec![(16, x.vd_flags as u64), (16, x.vd_ndx as u64), (16, x.vd_cnt as u64), (32, x.vd_hash as u64)];
            parse_embedded::<_, VerDef>(e, class, &pre, &m::enc_bytes(enc, |w| x.write(w)), &post, m::VERDEF_SIZE, name, &|g| {
                if g.vd_flags == x.vd_flags && g.vd_ndx == x.vd_ndx && g.vd_cnt == x.vd_cnt && g.vd_hash == x.vd_hash {
                    Ok(())
                } else {
                    Err(format!("decoded {:?}, encoded {:?}", g, x))
                }
            })
        }
        12 => {
            let x = m::Verdaux { vda_name: c.field(32) as u32, vda_next: c.field(32) as u32 };
            fields = vec![(32, x.vda_name as u64)];
            parse_embedded::<_, VerDefAux>(e, class, &pre, &m::enc_bytes(enc, |w| x.write(w)), &post, m::VERDAUX_SIZE, name, &|g| if g.vda_name == x.vda_name { Ok(()) } else { Err(format!("decoded {:?}, encoded {:?}", g, x)) })
        }
        13 => {
            let x = m::Verneed { vn_version: 1, vn_cnt: c.field(16) as u16, vn_file: c.field(32) as u32, vn_aux: c.field(32) as u32, vn_next: c.field(32) as u32 };
            fields = vec![(16, x.vn_cnt as u64), (32, x.vn_file as u64)];
            parse_embedded::<_, VerNeed>(e, class, &pre, &m::enc_bytes(enc, |w| x.write(w)), &post, m::VERNEED_SIZE, name, &|g| if g.vn_cnt == x.vn_cnt && g.vn_file == x.vn_file { Ok(()) } else { Err(format!("decoded {:?}, encoded {:?}", g, x)) })
        }
        14 => {
            let x = m::Vernaux { vna_hash: c.field(32) as u32, vna_flags: c.field(16) as u16, vna_other: c.field(16) as u16, vna_name: c.field(32) as u32, vna_next: c.field(32) as u32 };
            fields = vec![(32, x.vna_hash as u64), (16, x.vna_flags as u64), (16, x.vna_other as u64), (32, x.vna_name as u64)];
            parse_embedded::<_, VerNeedAux>(e, class, &pre, &m::enc_bytes(enc, |w| x.write(w)), &post, m::VERNAUX_SIZE, name, &|g| if g.vna_hash == x.vna_hash && g.vna_flags == x.vna_flags && g.vna_other == x.vna_other && g.vna_name == x.vna_name { Ok(()) } else { Err(format!("decoded {:?}, encoded {:?}", g, x)) })
        }
        15 => {
            let v = [c.field(32) as u32, c.field(32) as u32, c.field(32) as u32, c.field(32) as u32];
            fields = v.iter().map(|x| (32, *x as u64)).collect();
            let want = NoteGnuAbiTag { os: v[0], major: v[1], minor: v[2], subminor: v[3] };
            parse_embedded::<_, NoteGnuAbiTag>(e, class, &pre, &m::enc_bytes(enc, |w| {
                for x in v {
                    w.u32(x)
                }
            }), &post, 16, name, &|g| cmp(g, &want))
        }
        16 => {
            let v = c.field(32) as u32;
            fields = vec![(32, v as u64)];
            parse_embedded::<_, u32>(e, class, &pre, &m::enc_bytes(enc, |w| w.u32(v)), &post, 4, name, &|g| cmp(g, &v))
        }
        _ => {
            let v = c.field(64);
            fields = vec![(64, v)];
            parse_embedded::<_, u64>(e, class, &pre, &m::enc_bytes(enc, |w| w.u64(v)), &post, 8, name, &|g| cmp(g, &v))
        }
    });
    r.map_err(|s| format!("{} via {}: {}", enc.name(), SPEC_NAMES[spec as usize], s))?;
    obs.label(name);
    if interesting(&fields) {
        obs.nontrivial();
    }
    obs.describe(|| json!({"struct": name, "enc": enc.name(), "spec": SPEC_NAMES[spec as usize], "embedded_at": npre, "fields(bits,value)": fields.iter().map(|(b, v)| format!("{}:{:#x}", b, v)).collect::<Vec<_>>()}));
    Ok(())
}

/// Link fields that are private in the crate (vd_aux, vd_next, vda_next, vn_aux, vn_next, vna_next),
/// observed through where the iterators go next.
fn oracle_links(case: &[u8], obs: &mut Obs) -> Result<(), String> {
    let mut c = Choice::new(case);
    let enc = ALL_ENC[c.below(4) as usize];
    let spec: u8 = specs_for(enc.le)[c.below(2) as usize];
    let class = class_of(enc);
    let need = c.bool();
    let (hs, axs) = if need { (m::VERNEED_SIZE, m::VERNAUX_SIZE) } else { (m::VERDEF_SIZE, m::VERDAUX_SIZE) };
    // layout: head A at 0; aux1 at a; aux2 at a+d; head B at b
    let a = hs + c.below(120) as usize;
    let d = axs + c.below(90) as usize;
    let b = a + d + axs + c.below(150) as usize;
    let total = b + hs + c.below(9) as usize;
    let mut buf = c.bytes(total.min(64));
    buf.resize(total, 0xEE);
    let (n1, n2, hz) = (c.field(32) as u32, c.field(32) as u32, c.field(32) as u32);
    let put = |buf: &mut Vec<u8>, at: usize, bytes: Vec<u8>| buf[at..at + bytes.len()].copy_from_slice(&bytes);
    if need {
        put(&mut buf, 0, m::enc_bytes(enc, |w| m::Verneed { vn_version: 1, vn_cnt: 2, vn_file: 7, vn_aux: a as u32, vn_next: b as u32 }.write(w)));
        put(&mut buf, a, m::enc_bytes(enc, |w| m::Vernaux { vna_hash: 1, vna_flags: 0, vna_other: 2, vna_name: n1, vna_next: d as u32 }.write(w)));
        put(&mut buf, a + d, m::enc_bytes(enc, |w| m::Vernaux { vna_hash: 2, vna_flags: 0, vna_other: 3, vna_name: n2, vna_next: 0 }.write(w)));
        put(&mut buf, b, m::enc_bytes(enc, |w| m::Verneed { vn_version: 1, vn_cnt: 0, vn_file: hz, vn_aux: 0, vn_next: 0 }.write(w)));
    } else {
        put(&mut buf, 0, m::enc_bytes(enc, |w| m::Verdef { vd_version: 1, vd_flags: 0, vd_ndx: 2, vd_cnt: 2, vd_hash: 9, vd_aux: a as u32, vd_next: b as u32 }.write(w)));
        put(&mut buf, a, m::enc_bytes(enc, |w| m::Verdaux { vda_name: n1, vda_next: d as u32 }.write(w)));
        put(&mut buf, a + d, m::enc_bytes(enc, |w| m::Verdaux { vda_name: n2, vda_next: 0 }.write(w)));
        put(&mut buf, b, m::enc_bytes(enc, |w| m::Verdef { vd_version: 1, vd_flags: 0, vd_ndx: 3, vd_cnt: 0, vd_hash: hz, vd_aux: 0, vd_next: 0 }.write(w)));
    }
    let r: Result<(), String> = with_endian!(spec, |e| {
        if need {
            let mut it = VerNeedIterator::new(e, class, 2, 0, &buf);
            let (h1, ax) = it.next().ok_or("VerNeedIterator yielded nothing")?;
            let names: Vec<u32> = ax.map(|x| x.vna_name).collect();
            if h1.vn_cnt != 2 || names != vec![n1, n2] {
                return Err(format!("first Verneed (vn_aux={}, vna_next={}): aux names {:?}, expected {:?}", a, d, names, [n1, n2]));
            }
            let (h2, _) = it.next().ok_or(format!("VerNeedIterator did not follow vn_next={}", b))?;
            if h2.vn_file != hz {
                return Err(format!("second Verneed (vn_next={}) has vn_file {:#x}, expected {:#x}", b, h2.vn_file, hz));
            }
            if it.next().is_some() {
                return Err("VerNeedIterator yielded a third record for count 2".into());
            }
        } else {
            let mut it = VerDefIterator::new(e, class, 2, 0, &buf);
            let (h1, ax) = it.next().ok_or("VerDefIterator yielded nothing")?;
            let names: Vec<u32> = ax.map(|x| x.vda_name).collect();
            if h1.vd_cnt != 2 || names != vec![n1, n2] {
                return Err(format!("first Verdef (vd_aux={}, vda_next={}): aux names {:?}, expected {:?}", a, d, names, [n1, n2]));
            }
            let (h2, _) = it.next().ok_or(format!("VerDefIterator did not follow vd_next={}", b))?;
            if h2.vd_hash != hz {
                return Err(format!("second Verdef (vd_next={}) has vd_hash {:#x}, expected {:#x}", b, h2.vd_hash, hz));
            }
            if it.next().is_some() {
                return Err("VerDefIterator yielded a third record for count 2".into());
            }
        }
        Ok(())
    });
    r.map_err(|s| format!("{} via {}: {}", enc.name(), SPEC_NAMES[spec as usize], s))?;
    if a != hs || d != axs {
        obs.nontrivial();
    }
    obs.label(if need { "verneed_links" } else { "verdef_links" });
    obs.describe(|| json!({"kind": if need {"verneed"} else {"verdef"}, "enc": enc.name(), "aux_at": a, "aux_next": d, "next_head_at": b}));
    Ok(())
}

/// Note headers (the crate's NoteHeader is private): one record with generated n_namesz / n_descsz / n_type,
/// decoded through NoteIterator; the typed GNU forms carry exactly the descriptor's words.
fn oracle_nhdr(case: &[u8], obs: &mut Obs) -> Result<(), String> {
    use elf::note::{Note, NoteIterator};
    let mut c = Choice::new(case);
    let enc = ALL_ENC[c.below(4) as usize];
    let spec: u8 = specs_for(enc.le)[c.below(2) as usize];
    let class = class_of(enc);
    let gnu = c.chance(90);
    let n_type: u32 = if gnu { *c.pick(&[1u32, 3, 1, 3, 2, 0x80000001]) } else { c.field(32) as u32 };
    let nl = c.below(20) as usize;
    let name: Vec<u8> = if gnu { b"GNU\0".to_vec() } else { (0..nl).map(|i| b'A' + (i % 26) as u8).collect() };
    let dl = if gnu && n_type == 1 && c.bool() { 16 } else { c.below(24) as usize };
    let desc: Vec<u8> = (0..dl).map(|i| (i as u8).wrapping_mul(29).wrapping_add(c.u8())).collect();
    let rec = m::NoteRec { n_type, name: name.clone(), desc: desc.clone() };
    let mut w = m::W::new(enc);
    rec.write(&mut w, 0, 4);
    // bytes that follow the record: another plausible record, so that reading beyond the descriptor "works"
    m::NoteRec { n_type: 3, name: b"GNU\0".to_vec(), desc: vec![0xAA; 8] }.write(&mut w, 0, 4);
    let data = w.buf;
    let first = with_endian!(spec, |e| NoteIterator::new(e, class, 4, &data).next());
    let ctx = format!("{} {} note header (n_namesz {}, n_descsz {}, n_type {:#x}) name {} desc {}", enc.name(), SPEC_NAMES[spec as usize], name.len(), dl, n_type, hex(&name), hex(&desc));
    let word = |i: usize| verif_model::refs::rd_u32(enc.le, &desc, 4 * i);
    match first {
        Some(Note::GnuAbiTag(t)) => {
            if !(gnu && n_type == 1 && dl >= 16 && Some(t.os) == word(0) && Some(t.major) == word(1) && Some(t.minor) == word(2) && Some(t.subminor) == word(3)) {
                return Err(format!("{}: decoded {:?}", ctx, t));
            }
        }
        Some(Note::GnuBuildId(b)) => {
            if !(gnu && n_type == 3 && b.0 == &desc[..]) {
                return Err(format!("{}: decoded build id {}", ctx, hex(b.0)));
            }
        }
        Some(Note::Unknown(a)) => {
            // (a "GNU" type-1 record whose descriptor is too short for an ABI tag is outside the statements: ending
            // the iteration there or handing it out untyped with its exact bytes are both faithful; a typed tag is not)
            let short_tag = gnu && n_type == 1 && dl < 16;
            if (gnu && (n_type == 1 || n_type == 3) && !short_tag) || a.n_type != n_type as u64 || a.name != &name[..] || a.desc != &desc[..] {
                return Err(format!("{}: decoded {:?}", ctx, a));
            }
        }
        None => {
            if !(gnu && n_type == 1 && dl < 16) {
                return Err(format!("{}: the iterator yielded nothing", ctx));
            }
            obs.label("abi_tag_with_short_descriptor_rejected");
        }
    }
    if n_type >> 31 == 1 || dl % 4 != 0 || nl % 4 != 0 {
        obs.nontrivial();
    }
    obs.describe(|| json!({"note": ctx}));
    Ok(())
}

/// The packed version index where the crate itself splits it: a one-record .gnu.version_r / .gnu.version_d and a
/// versym word `index | hidden<<15`; the query must resolve by the low 15 bits and report bit 15 as `hidden`.
fn oracle_versym_use(case: &[u8], obs: &mut Obs) -> Result<(), String> {
    use elf::gnu_symver::{SymbolVersionTable, VersionIndexTable};
    use elf::string_table::StringTable;
    let mut c = Choice::new(case);
    let enc = ALL_ENC[c.below(4) as usize];
    let spec: u8 = specs_for(enc.le)[c.below(2) as usize];
    let class = class_of(enc);
    let idx: u16 = match c.below(4) {
        0 => 2 + c.below(6) as u16,
        1 => 0x7fff - c.below(0x100) as u16,
        _ => (2 + c.below(0x7ffd)) as u16,
    };
    let hidden = c.bool();
    let word = idx | if hidden { 0x8000 } else { 0 };
    let strs = b"\0libx.so\0VER_1\0";
    let need = m::enc_bytes(enc, |w| {
        m::Verneed { vn_version: 1, vn_cnt: 1, vn_file: 1, vn_aux: 16, vn_next: 0 }.write(w);
        m::Vernaux { vna_hash: 0x1234, vna_flags: 7, vna_other: idx, vna_name: 9, vna_next: 0 }.write(w);
    });
    let def = m::enc_bytes(enc, |w| {
        m::Verdef { vd_version: 1, vd_flags: 3, vd_ndx: idx, vd_cnt: 1, vd_hash: 0x4321, vd_aux: 20, vd_next: 0 }.write(w);
        m::Verdaux { vda_name: 9, vda_next: 0 }.write(w);
    });
    // several symbols bound to the same version, each with its own bit 15, resolved on ONE table handle in a
    // generated order (with repeats): every answer depends on the queried symbol's own word only
    let nwords = 1 + c.below(4) as usize;
    let mut words = vec![word];
    for _ in 1..nwords {
        words.push(idx | if c.bool() { 0x8000 } else { 0 });
    }
    let versym = m::enc_bytes(enc, |w| {
        for x in &words {
            w.u16(*x)
        }
    });
    let mut order: Vec<(bool, usize)> = vec![(true, 0), (false, 0)];
    for _ in 0..c.below(8) {
        order.push((c.bool(), c.idx(nwords)));
    }
    let r: Result<(), String> = with_endian!(spec, |e| {
        let t = SymbolVersionTable::new(VersionIndexTable::new(e, class, &versym), Some((VerNeedIterator::new(e, class, 1, 0, &need), StringTable::new(strs))), Some((VerDefIterator::new(e, class, 1, 0, &def), StringTable::new(strs))));
        for (k, (req, i)) in order.iter().enumerate() {
            let (word, hidden) = (words[*i], words[*i] & 0x8000 != 0);
            let hist = || format!("query #{} of {:?} on one handle over versym {:04x?}", k, order, words);
            if *req {
                match t.get_requirement(*i) {
                    Ok(Some(r)) if r.file == "libx.so" && r.name == "VER_1" && r.hash == 0x1234 && r.flags == 7 && r.hidden == hidden => {}
                    other => return Err(format!("get_requirement({}) for versym word {:#06x} (index {}, hidden {}) = {:?} [{}]", i, word, idx, hidden, other.map_err(|e| err_name(&e)), hist())),
                }
            } else {
                match t.get_definition(*i) {
                    Ok(Some(d)) if d.hash == 0x4321 && d.flags == 3 && d.hidden == hidden => {}
                    Ok(Some(d)) => return Err(format!("get_definition({}) for versym word {:#06x}: hash {:#x} flags {} hidden {} [{}]", i, word, d.hash, d.flags, d.hidden, hist())),
                    Ok(None) => return Err(format!("get_definition({}) for versym word {:#06x} (index {}, hidden {}) = None [{}]", i, word, idx, hidden, hist())),
                    Err(e) => return Err(format!("get_definition failed with {} [{}]", err_name(&e), hist())),
                }
            }
        }
        Ok(())
    });
    r.map_err(|s| format!("{} {}: {}", enc.name(), SPEC_NAMES[spec as usize], s))?;
    let mixed = words.iter().any(|w| w & 0x8000 != 0) && words.iter().any(|w| w & 0x8000 == 0);
    obs.label_if(mixed, "same_version_hidden_and_not_on_one_handle");
    if hidden {
        obs.nontrivial();
    }
    obs.describe(|| json!({"versym_words": format!("{:04x?}", words), "queries": format!("{:?}", order), "enc": enc.name()}));
    Ok(())
}

/// plain encoding [hi, lo]: all 65536 values of the one-/two-byte derived accessors
fn oracle_accessors(case: &[u8], obs: &mut Obs) -> Result<(), String> {
    if case.len() < 2 {
        return Ok(());
    }
    let (hi, lo) = (case[0], case[1]);
    let v = ((hi as u16) << 8) | lo as u16;
    let s = Symbol { st_name: 0, st_shndx: v, st_info: hi, st_other: lo, st_value: 0, st_size: 0 };
    if s.st_bind() != hi >> 4 || s.st_symtype() != hi & 0xf || s.st_vis() != lo & 0x3 || s.is_undefined() != (v == 0) {
        return Err(format!("Symbol{{st_info:{:#x}, st_other:{:#x}, st_shndx:{:#x}}}: bind {} type {} vis {} undefined {}", hi, lo, v, s.st_bind(), s.st_symtype(), s.st_vis(), s.is_undefined()));
    }
    let x = VersionIndex(v);
    if x.index() != v & 0x7fff || x.is_hidden() != (v >> 15 == 1) || x.is_local() != (v & 0x7fff == 0) || x.is_global() != (v & 0x7fff == 1) {
        return Err(format!("VersionIndex({:#x}): index {} hidden {} local {} global {}", v, x.index(), x.is_hidden(), x.is_local(), x.is_global()));
    }
    if v >= 0x100 {
        obs.nontrivial();
    }
    obs.describe(|| json!({"st_info": hi, "st_other": lo, "st_shndx/versym": v}));
    Ok(())
}

fn enum_accessors(shard: usize, nshards: usize, _t: Tier, emit: &mut dyn FnMut(&[u8]) -> bool) {
    for v in 0..=0xffffu32 {
        if v as usize % nshards != shard {
            continue;
        }
        if !emit(&[(v >> 8) as u8, v as u8]) {
            return;
        }
    }
}

pub fn property() -> Property {
    Property {
        id: "C02",
        level: "exploration",
        rule: "struct: cases are (one of 18 structure types, class, byte order, fixed or run-time spec, a field-value assignment with boundary/top-bit/per-byte-distinct/raw values, embedding offset and padding); the independent ELF writer encodes the values per the gABI tables and parse_at must return exactly them (u32 fields zero-extended, d_tag and ELF32 r_addend sign-extended, r_info split by the ELF32/ELF64 macros), advance by exactly the ABI size, agree with size_for, ParsingTable::get, ParsingIterator (also last/count/nth on a table that ends in a partial entry, and next-then-nth on a two-entry table), and for the file header with parse_ident+parse_tail, ElfBytes.ehdr and ElfStream.ehdr; one byte short must fail. links: the crate-private link fields vd_aux/vd_next/vda_next/vn_aux/vn_next/vna_next observed through where VerDefIterator/VerNeedIterator go. nhdr: one note record with generated n_namesz/n_descsz/n_type decoded through NoteIterator (typed GNU forms only from a full descriptor). versym_use: a one-record .gnu.version_r/.gnu.version_d and 1..4 versym words index|hidden<<15 of that one version, queried in a generated order with repeats on one table handle: get_requirement/get_definition resolve by the low 15 bits and report the queried word's own bit 15 as hidden. accessors: st_bind/st_symtype/st_vis/is_undefined and VersionIndex index/hidden/local/global exhaustively over 2^16 values. Non-trivial (struct): some field has its top bit set and all same-width fields hold pairwise different values; (links): non-contiguous placement.",
        assumptions: &["the ELF writer's layout equals <elf.h> (checked at start-up against reference/struct_layout.tsv)", "VerDef/VerNeed records are generated with version 1 only (other versions are outside the statement)"],
        subs: vec![Sub::new("struct", oracle_struct, 200, 1_000_000, 40_000_000), Sub::new("links", oracle_links, 320, 200_000, 5_000_000), Sub::new("nhdr", oracle_nhdr, 80, 200_000, 5_000_000), Sub::new("versym_use", oracle_versym_use, 40, 100_000, 3_000_000), Sub::enumerated("accessors", oracle_accessors, enum_accessors, true)],
        extras: vec![crate::fuzz::c02_choice],
    }
}
