//! C19 — exported ABI definitions agree with the ELF ABI reference (exhaustive enumeration against
//! reference tables derived from glibc <elf.h>, Linux uapi headers and LLVM 14 BinaryFormat).
use crate::common::*;
use elf::to_str as ts;
use std::collections::{BTreeMap, HashMap};
use std::sync::OnceLock;

include!(concat!(env!("OUT_DIR"), "/abi_consts.rs"));

/// names the references spell differently: crate name -> reference name (only the spelling is ours)
const ALIASES: &[(&str, &str)] = &[
    ("SHT_GNU_VERDEF", "SHT_GNU_verdef"),
    ("SHT_GNU_VERNEED", "SHT_GNU_verneed"),
    ("SHT_GNU_VERSYM", "SHT_GNU_versym"),
    ("ELF_NOTE_GNU_ABI_TAG_OS_LINUX", "ELF_NOTE_OS_LINUX"),
    ("ELF_NOTE_GNU_ABI_TAG_OS_GNU", "ELF_NOTE_OS_GNU"),
    ("ELF_NOTE_GNU_ABI_TAG_OS_SOLARIS2", "ELF_NOTE_OS_SOLARIS2"),
    ("ELF_NOTE_GNU_ABI_TAG_OS_FREEBSD", "ELF_NOTE_OS_FREEBSD"),
    ("VER_NDX_VERSION", "VERSYM_VERSION"),
    ("VER_NDX_HIDDEN", "VERSYM_HIDDEN"),
    ("EF_RISCV_FLOAT_ABI_MASK", "EF_RISCV_FLOAT_ABI"),
];

struct Reference {
    /// name -> (source -> value)
    by_name: HashMap<String, BTreeMap<String, i128>>,
}

fn reference() -> &'static Reference {
    static R: OnceLock<Reference> = OnceLock::new();
    R.get_or_init(|| {
        let p = verif_model::run::verif_root().join("reference/elf_constants.tsv");
        let mut s = std::fs::read_to_string(&p).unwrap_or_default();
        // names no installed header defines: transcribed by hand from the ABI documents
        s.push('\n');
        s.push_str(&std::fs::read_to_string(verif_model::run::verif_root().join("reference/supplement_constants.tsv")).unwrap_or_default());
        let mut by_name: HashMap<String, BTreeMap<String, i128>> = HashMap::new();
        for l in s.lines() {
            if l.starts_with('#') {
                continue;
            }
            let f: Vec<&str> = l.split('\t').collect();
            if f.len() == 3 {
                if let Ok(v) = f[2].parse::<i128>() {
                    by_name.entry(f[0].to_string()).or_default().insert(f[1].to_string(), v);
                }
            }
        }
        Reference { by_name }
    })
}

fn crate_consts() -> &'static HashMap<&'static str, i128> {
    static C: OnceLock<HashMap<&'static str, i128>> = OnceLock::new();
    C.get_or_init(|| INT_CONSTS.iter().map(|(n, v, _)| (*n, *v)).collect())
}

/// Reference value of a crate constant (normalised to the crate type's width), or why it is not judged.
fn ref_value(name: &str, ty: &str) -> Result<i128, &'static str> {
    let r = reference();
    let rn = ALIASES.iter().find(|(c, _)| *c == name).map(|(_, r)| *r).unwrap_or(name);
    let Some(srcs) = r.by_name.get(rn) else { return Err("no_reference_defines_it") };
    let bits: u32 = match ty {
        "u8" | "i8" => 8,
        "u16" | "i16" => 16,
        "u32" | "i32" => 32,
        _ => 64,
    };
    let norm = |v: i128| -> i128 {
        if ty.starts_with('u') {
            // unsigned crate type: compare modulo the width (C headers print e.g. SHN_UNDEF as int)
            if bits >= 64 {
                (v as i64 as u64) as i128
            } else {
                v & ((1i128 << bits) - 1)
            }
        } else {
            v
        }
    };
    let vals: Vec<i128> = srcs.values().map(|v| norm(*v)).collect();
    if vals.iter().any(|v| *v != vals[0]) {
        return Err("references_disagree");
    }
    Ok(vals[0])
}

// ---- (i) constants -------------------------------------------------------------------------------

/// plain encoding: the constant's name
fn oracle_const(case: &[u8], obs: &mut Obs) -> Result<(), String> {
    let Some((name, val, ty)) = INT_CONSTS.iter().find(|(n, _, _)| n.as_bytes() == case) else { return Ok(()) };
    match ref_value(name, ty) {
        Ok(want) => {
            if *val != want {
                let srcs = reference().by_name.get(ALIASES.iter().find(|(c, _)| c == name).map(|(_, r)| *r).unwrap_or(name)).cloned().unwrap_or_default();
                obs.known_or_fail(&format!("c19.const:{}", name), format!("elf::abi::{} = {} ({:#x}), the references say {} ({:#x}) {:?}", name, val, val, want, want, srcs))?;
            }
            obs.nontrivial();
            obs.label("referenced");
        }
        Err(why) => {
            obs.skip(why);
        }
    }
    obs.describe(|| json!({"const": name, "type": ty, "crate_value": val.to_string(), "reference": ref_value(name, ty).map(|v| v.to_string()).unwrap_or_else(|e| e.to_string())}));
    Ok(())
}

fn enum_const(shard: usize, nshards: usize, _t: Tier, emit: &mut dyn FnMut(&[u8]) -> bool) {
    for i in 0..INT_CONSTS.len() {
        if i % nshards != shard {
            continue;
        }
        if !emit(INT_CONSTS[i].0.as_bytes()) {
            return;
        }
    }
}

/// byte-string constants: [0] = ELFMAGIC, [1] = ELF_NOTE_GNU
fn oracle_bytes(case: &[u8], obs: &mut Obs) -> Result<(), String> {
    match case.first() {
        Some(0) => {
            if elf::abi::ELFMAGIC != [0x7f, b'E', b'L', b'F'] {
                return Err(format!("ELFMAGIC = {:?}", elf::abi::ELFMAGIC));
            }
        }
        Some(1) => {
            if elf::abi::ELF_NOTE_GNU != b"GNU\0" {
                return Err(format!("ELF_NOTE_GNU = {:?}", elf::abi::ELF_NOTE_GNU));
            }
        }
        _ => return Ok(()),
    }
    obs.nontrivial();
    obs.describe(|| json!({"byte_const": case[0]}));
    Ok(())
}
fn enum_bytes(shard: usize, _n: usize, _t: Tier, emit: &mut dyn FnMut(&[u8]) -> bool) {
    if shard == 0 {
        let _ = emit(&[0]) && emit(&[1]);
    }
}

// ---- (ii) C-layout structs -----------------------------------------------------------------------

macro_rules! layout {
    ($out:ident, $t:ty, $name:expr, [$($f:ident),*]) => {
        $out.push(($name, "", std::mem::size_of::<$t>(), std::mem::size_of::<$t>()));
        $out.push(($name, "@align", std::mem::align_of::<$t>(), 0));
        $( $out.push(($name, stringify!($f), std::mem::offset_of!($t, $f), {
            fn sz<T, F>(_: fn(&T) -> &F) -> usize { std::mem::size_of::<F>() }
            sz(|x: &$t| &x.$f)
        })); )*
    };
}

fn crate_layout() -> Vec<(&'static str, &'static str, usize, usize)> {
    use elf::{compression::*, dynamic::*, file::*, relocation::*, section::*, segment::*, symbol::*};
    let mut o = vec![];
    layout!(o, Elf32_Ehdr, "Elf32_Ehdr", [e_ident, e_type, e_machine, e_version, e_entry, e_phoff, e_shoff, e_flags, e_ehsize, e_phentsize, e_phnum, e_shentsize, e_shnum, e_shstrndx]);
    layout!(o, Elf64_Ehdr, "Elf64_Ehdr", [e_ident, e_type, e_machine, e_version, e_entry, e_phoff, e_shoff, e_flags, e_ehsize, e_phentsize, e_phnum, e_shentsize, e_shnum, e_shstrndx]);
    layout!(o, Elf32_Shdr, "Elf32_Shdr", [sh_name, sh_type, sh_flags, sh_addr, sh_offset, sh_size, sh_link, sh_info, sh_addralign, sh_entsize]);
    layout!(o, Elf64_Shdr, "Elf64_Shdr", [sh_name, sh_type, sh_flags, sh_addr, sh_offset, sh_size, sh_link, sh_info, sh_addralign, sh_entsize]);
    layout!(o, Elf32_Phdr, "Elf32_Phdr", [p_type, p_offset, p_vaddr, p_paddr, p_filesz, p_memsz, p_flags, p_align]);
    layout!(o, Elf64_Phdr, "Elf64_Phdr", [p_type, p_flags, p_offset, p_vaddr, p_paddr, p_filesz, p_memsz, p_align]);
    layout!(o, Elf32_Sym, "Elf32_Sym", [st_name, st_value, st_size, st_info, st_other, st_shndx]);
    layout!(o, Elf64_Sym, "Elf64_Sym", [st_name, st_info, st_other, st_shndx, st_value, st_size]);
    layout!(o, Elf32_Rel, "Elf32_Rel", [r_offset, r_info]);
    layout!(o, Elf64_Rel, "Elf64_Rel", [r_offset, r_info]);
    layout!(o, Elf32_Rela, "Elf32_Rela", [r_offset, r_info, r_addend]);
    layout!(o, Elf64_Rela, "Elf64_Rela", [r_offset, r_info, r_addend]);
    layout!(o, Elf32_Dyn, "Elf32_Dyn", [d_tag, d_un]);
    layout!(o, Elf64_Dyn, "Elf64_Dyn", [d_tag, d_un]);
    layout!(o, Elf32_Chdr, "Elf32_Chdr", [ch_type, ch_size, ch_addralign]);
    layout!(o, Elf64_Chdr, "Elf64_Chdr", [ch_type, ch_reserved, ch_size, ch_addralign]);
    o
}

/// plain encoding: "Struct.field" ("Struct." for the size row)
fn oracle_layout(case: &[u8], obs: &mut Obs) -> Result<(), String> {
    let lay = crate_layout();
    let Some(&(st, field, off, size)) = lay.iter().find(|(s, f, _, _)| format!("{}.{}", s, f).as_bytes() == case) else { return Ok(()) };
    static REF: OnceLock<Vec<elfw::LayoutRow>> = OnceLock::new();
    let r = REF.get_or_init(|| elfw::parse_layout(&std::fs::read_to_string(verif_model::run::verif_root().join("reference/struct_layout.tsv")).unwrap_or_default()));
    if field.is_empty() {
        let row = r.iter().find(|x| x.strukt == st).ok_or(format!("reference has no struct {}", st))?;
        if row.struct_size != size {
            obs.known_or_fail(&format!("c19.layout:{}", st), format!("size_of::<{}>() = {}, <elf.h> says {}", st, size, row.struct_size))?;
        }
    } else {
        let row = r.iter().find(|x| x.strukt == st && x.field == field).ok_or(format!("reference has no field {}.{}", st, field))?;
        if row.offset != off || row.size != size {
            obs.known_or_fail(&format!("c19.layout:{}.{}", st, field), format!("{}.{}: offset {} size {}, <elf.h> says offset {} size {}", st, field, off, size, row.offset, row.size))?;
        }
    }
    obs.nontrivial();
    obs.describe(|| json!({"struct": st, "field": field, "offset": off, "size": size}));
    Ok(())
}
fn enum_layout(shard: usize, nshards: usize, _t: Tier, emit: &mut dyn FnMut(&[u8]) -> bool) {
    let lay = crate_layout();
    for (i, (s, f, _, _)) in lay.iter().enumerate() {
        if i % nshards == shard && !emit(format!("{}.{}", s, f).as_bytes()) {
            return;
        }
    }
}

// ---- (iii) to_str helpers ------------------------------------------------------------------------

#[derive(Clone, Copy)]
enum Helper {
    U8(fn(u8) -> Option<&'static str>, Option<fn(u8) -> String>),
    U16(fn(u16) -> Option<&'static str>, Option<fn(u16) -> String>),
    U32(fn(u32) -> Option<&'static str>, Option<fn(u32) -> String>),
    I64(fn(i64) -> Option<&'static str>, Option<fn(i64) -> String>),
}

fn helpers() -> Vec<(&'static str, Helper)> {
    vec![
        ("e_osabi", Helper::U8(ts::e_osabi_to_str, Some(ts::e_osabi_to_string))),
        ("e_type", Helper::U16(ts::e_type_to_str, Some(ts::e_type_to_string))),
        ("e_type_human", Helper::U16(ts::e_type_to_human_str, None)),
        ("e_machine", Helper::U16(ts::e_machine_to_str, Some(ts::e_machine_to_string))),
        ("e_machine_human", Helper::U16(ts::e_machine_to_human_str, None)),
        ("sh_type", Helper::U32(ts::sh_type_to_str, Some(ts::sh_type_to_string))),
        ("p_type", Helper::U32(ts::p_type_to_str, Some(ts::p_type_to_string))),
        ("st_symtype", Helper::U8(ts::st_symtype_to_str, Some(ts::st_symtype_to_string))),
        ("st_bind", Helper::U8(ts::st_bind_to_str, Some(ts::st_bind_to_string))),
        ("st_vis", Helper::U8(ts::st_vis_to_str, Some(ts::st_vis_to_string))),
        ("ch_type", Helper::U32(ts::ch_type_to_str, None)),
        ("note_abi_tag_os", Helper::U32(ts::note_abi_tag_os_to_str, None)),
        ("d_tag", Helper::I64(ts::d_tag_to_str, None)),
    ]
}

fn call(h: Helper, v: i128) -> (Option<&'static str>, Option<String>) {
    match h {
        Helper::U8(f, g) => (f(v as u8), g.map(|g| g(v as u8))),
        Helper::U16(f, g) => (f(v as u16), g.map(|g| g(v as u16))),
        Helper::U32(f, g) => (f(v as u32), g.map(|g| g(v as u32))),
        Helper::I64(f, g) => (f(v as i64), g.map(|g| g(v as i64))),
    }
}

/// Is helper #i symbolic: is at least one of its outputs over the constant values the identifier of an
/// exported constant?
fn symbolic(i: usize) -> bool {
    static S: OnceLock<Vec<bool>> = OnceLock::new();
    S.get_or_init(|| {
        let consts = crate_consts();
        helpers()
            .iter()
            .map(|(_, h)| {
                let dom: Vec<i128> = match h {
                    Helper::U8(..) => (0..256).collect(),
                    Helper::U16(..) => (0..65536).collect(),
                    _ => consts.values().copied().collect(),
                };
                dom.iter().any(|v| call(*h, *v).0.map(|s| consts.contains_key(s)).unwrap_or(false))
            })
            .collect()
    })[i]
}

/// plain encoding: helper name, NUL, 16 bytes little-endian i128 argument
fn oracle_tostr(case: &[u8], obs: &mut Obs) -> Result<(), String> {
    let Some(z) = case.iter().position(|b| *b == 0) else { return Ok(()) };
    if case.len() < z + 17 {
        return Ok(());
    }
    let hs = helpers();
    if &case[..z] == b"p_flags" {
        let mut b = [0u8; 16];
        b.copy_from_slice(&case[z + 1..z + 17]);
        let v = i128::from_le_bytes(b) as u32;
        let st = ts::p_flags_to_string(v);
        // values above the three permission bits fall back to text containing the number
        if v >= 8 && !(st.to_lowercase().contains(&format!("{:x}", v)) || st.contains(&format!("{}", v))) {
            return Err(format!("p_flags_to_string({:#x}) = {:?} does not contain the number", v, st));
        }
        obs.label("p_flags_to_string");
        if v >= 8 {
            obs.nontrivial();
        }
        obs.describe(|| json!({"helper": "p_flags_to_string", "arg": v, "to_string": st}));
        return Ok(());
    }
    let Some(hi) = hs.iter().position(|(n, _)| n.as_bytes() == &case[..z]) else { return Ok(()) };
    let mut b = [0u8; 16];
    b.copy_from_slice(&case[z + 1..z + 17]);
    let v = i128::from_le_bytes(b);
    let (name, h) = hs[hi];
    let v = match h {
        Helper::U8(..) => v as u8 as i128,
        Helper::U16(..) => v as u16 as i128,
        Helper::U32(..) => v as u32 as i128,
        Helper::I64(..) => v as i64 as i128,
    };
    let (s, string) = call(h, v);
    let consts = crate_consts();
    if symbolic(hi) {
        if let Some(s) = s {
            match consts.get(s) {
                Some(cv) if *cv == v => {}
                Some(cv) => obs.known_or_fail(&format!("c19.to_str:{}:{}", name, v), format!("{}_to_str({}) = {:?}, but elf::abi::{} = {}", name, v, s, s, cv))?,
                None => obs.known_or_fail(&format!("c19.to_str:{}:{}", name, v), format!("{}_to_str({}) = {:?}, which is not the identifier of an exported constant", name, v, s))?,
            }
            obs.nontrivial();
            obs.label("symbolic_some");
        }
        if let Some(st) = &string {
            match s {
                Some(s) => {
                    if st != s {
                        return Err(format!("{}_to_string({}) = {:?} differs from {}_to_str = {:?}", name, v, st, name, s));
                    }
                }
                None => {
                    let hexs = format!("{:x}", v);
                    let decs = format!("{}", v);
                    if !(st.to_lowercase().contains(&hexs) || st.contains(&decs)) {
                        return Err(format!("{}_to_string({}) = {:?} does not contain the number", name, v, st));
                    }
                    obs.label("fallback_string");
                }
            }
        }
    } else {
        obs.label("descriptive_helper");
    }
    obs.describe(|| json!({"helper": name, "arg": v.to_string(), "to_str": s, "to_string": string}));
    Ok(())
}

fn emit_tostr(hi: usize, v: i128, emit: &mut dyn FnMut(&[u8]) -> bool) -> bool {
    let mut c = helpers()[hi].0.as_bytes().to_vec();
    c.push(0);
    c.extend_from_slice(&v.to_le_bytes());
    emit(&c)
}

fn enum_tostr(shard: usize, nshards: usize, tier: Tier, emit: &mut dyn FnMut(&[u8]) -> bool) {
    let hs = helpers();
    let mut n = 0usize;
    let mut vals: Vec<i128> = crate_consts().values().copied().collect();
    vals.sort();
    vals.dedup();
    for (hi, (_, h)) in hs.iter().enumerate() {
        match h {
            Helper::U8(..) => {
                for v in 0..256 {
                    n += 1;
                    if n % nshards == shard && !emit_tostr(hi, v, emit) {
                        return;
                    }
                }
            }
            Helper::U16(..) => {
                for v in 0..65536 {
                    n += 1;
                    if n % nshards == shard && !emit_tostr(hi, v, emit) {
                        return;
                    }
                }
            }
            _ => {
                for v in &vals {
                    for d in [-1i128, 0, 1] {
                        n += 1;
                        if n % nshards == shard && !emit_tostr(hi, v + d, emit) {
                            return;
                        }
                    }
                    // the same low word under a non-zero high word (truncating lookups)
                    if matches!(h, Helper::I64(..)) && *v >= 0 && *v <= u32::MAX as i128 {
                        // the negated value must not be named like the positive one
                        n += 1;
                        if *v != 0 && n % nshards == shard && !emit_tostr(hi, -*v, emit) {
                            return;
                        }
                        for hw in [1i128 << 32, 2i128 << 32, 0x7fff_ffffi128 << 32, -(1i128 << 32), -(1i128 << 63)] {
                            n += 1;
                            if n % nshards == shard && !emit_tostr(hi, (*v + hw) as i64 as i128, emit) {
                                return;
                            }
                        }
                    }
                }
                // pseudo-random arguments (a pure function of the index)
                let count = if tier == Tier::Quick { 200_000u64 } else { 10_000_000 };
                let mut s = 0x1234_5678u64 ^ hi as u64;
                for _ in 0..count {
                    let r = verif_model::choice::splitmix(&mut s);
                    n += 1;
                    if n % nshards == shard && !emit_tostr(hi, r as i64 as i128, emit) {
                        return;
                    }
                }
            }
        }
    }
    // p_flags_to_string has no _to_str twin: emitted under the pseudo-helper name "p_flags"
    if shard == 0 {
        let mut s = 0x77u64;
        let mut args: Vec<u32> = (0..4096u32).collect();
        args.extend([u32::MAX, 0x0ff0_0000, 0xf000_0000, 0x1000_0005, 0x0010_0001, 0xfff0_0000, 0x8000_0000]);
        for _ in 0..2000 {
            args.push(verif_model::choice::splitmix(&mut s) as u32);
        }
        for v in args {
            let mut c = b"p_flags".to_vec();
            c.push(0);
            c.extend_from_slice(&(v as i128).to_le_bytes());
            if !emit(&c) {
                return;
            }
        }
    }
}

/// Exhaustive sweep of the whole u32 domain of every u32 helper (4 x 2^32 calls, a few seconds): any Some(s)
/// must be an exported identifier with that value.
fn u32_sweep(_tier: Tier, _seed: u64) -> verif_model::run::ExtraOutcome {
    let consts = crate_consts();
    let hs = helpers();
    let mut somes = 0u64;
    let mut failure = None;
    let mut samples = vec![];
    let mut calls = 0u64;
    for (hi, (name, h)) in hs.iter().enumerate() {
        let Helper::U32(f, _) = h else { continue };
        let sym = symbolic(hi);
        let nthreads = std::thread::available_parallelism().map(|n| n.get()).unwrap_or(4).min(16) as u64;
        let found: Vec<(u32, &'static str)> = std::thread::scope(|sc| {
            let hs: Vec<_> = (0..nthreads)
                .map(|t| {
                    sc.spawn(move || {
                        let mut v = vec![];
                        let lo = (t * (1u64 << 32) / nthreads) as u64;
                        let hi2 = ((t + 1) * (1u64 << 32) / nthreads) as u64;
                        for x in lo..hi2 {
                            if let Some(s) = f(x as u32) {
                                v.push((x as u32, s));
                            }
                        }
                        v
                    })
                })
                .collect();
            hs.into_iter().flat_map(|h| h.join().unwrap_or_default()).collect()
        });
        calls += 1u64 << 32;
        somes += found.len() as u64;
        if samples.len() < 4 {
            samples.push(json!({"helper": name, "some_answers_over_2^32_arguments": found.len(), "first": found.first().map(|(v, s)| format!("{:#x} -> {}", v, s))}));
        }
        if sym && failure.is_none() {
            for (v, st) in &found {
                let ok = consts.get(st).map(|cv| *cv == *v as i128).unwrap_or(false);
                if !ok && !verif_model::run::is_open_finding(&format!("c19.to_str:{}:{}", name, v)) {
                    let mut case = name.as_bytes().to_vec();
                    case.push(0);
                    case.extend_from_slice(&(*v as i128).to_le_bytes());
                    let msg = format!("{}_to_str({:#x}) = {:?}, which is not the identifier of an exported constant with that value", name, v, st);
                    let rf = verif_model::run::write_case_file(&verif_model::run::verif_root().join("out/C19"), "C19", "to_str", &case, &msg, None);
                    failure = Some((msg, json!({"replay_file": rf.to_string_lossy()})));
                    break;
                }
            }
        }
    }
    verif_model::run::ExtraOutcome { name: "to_str_u32_exhaustive", evaluations: calls, nontrivial: somes, samples, detail: json!({"domain": "every u32 argument of every u32 to_str helper", "some_answers": somes}), failure, inconclusive: None }
}

pub fn property() -> Property {
    Property {
        id: "C19",
        level: "exploration",
        rule: "finite domains enumerated exhaustively against differential references. const: every `pub const NAME: <int>` of src/abi.rs (extracted by build.rs) vs reference/elf_constants.tsv derived from glibc <elf.h>, Linux uapi linux/elf.h + elf-em.h and LLVM 14 BinaryFormat (values evaluated by the C/C++ compiler), plus reference/supplement_constants.tsv (40 names that no installed header defines - the ARM PT_ARM_ARCHEXT word layout, DT_ARM_*, R_ARM_THM_ALU_ABS_*, AArch64 section/segment types, ELFCOMPRESS_ZSTD, ELFOSABI_OPENVOS, DT_GUILE_* - transcribed by hand from the ABI documents); a name is judged when every reference that defines it (under the crate's spelling or the alias table) gives the same value, otherwise it is counted under skipped (references_disagree / no_reference_defines_it). bytes: ELFMAGIC, ELF_NOTE_GNU. layout: size_of, align_of and offset_of!/field size of all 16 #[repr(C)] structs vs reference/struct_layout.tsv (offsetof on <elf.h>). to_str: every helper over u8/u16 exhaustively; u32 helpers additionally over ALL 2^32 arguments (to_str_u32_exhaustive); i64 helpers over all constant values, their neighbours, negations, the same low word under five high words, and pseudo-random values; p_flags_to_string must contain the number for every value >= 8; a helper is symbolic when at least one output is an exported identifier; for symbolic helpers Some(s) => s is exactly an exported identifier whose value is the argument, x_to_string == x_to_str when Some, else contains the number. Non-trivial: a constant that a reference defines / a layout row / a Some answer of a symbolic helper.",
        assumptions: &["the reference tables were derived on this image from glibc 2.36-era <elf.h>, linux uapi headers and LLVM 14; names on which they disagree (EM_ALPHA, SHT_HIUSER, R_AARCH64_P32_TLS_DTPMOD/DTPREL, ...) are not judged"],
        subs: vec![
            Sub::enumerated("const", oracle_const, enum_const, true),
            Sub::enumerated("bytes", oracle_bytes, enum_bytes, true),
            Sub::enumerated("layout", oracle_layout, enum_layout, true),
            Sub::enumerated("to_str", oracle_tostr, enum_tostr, false),
        ],
        extras: vec![u32_sweep],
    }
}
