//! C13 — GNU symbol-version queries resolve to the right requirement/definition.
use crate::common::*;
use crate::with_endian;
use elf::gnu_symver::{SymbolVersionTable, VerDefIterator, VerNeedIterator, VersionIndexTable};
use elf::string_table::StringTable;
use verif_model::elfw as m;
use verif_model::filegen::{self, FileSpec};
use verif_model::refs::{self, VerModel, VerSections};

fn check_table<E: EndianParse>(t: &SymbolVersionTable<'_, E>, model: &VerModel, has_needs: bool, has_defs: bool, obs: &mut Obs, via: &str) -> Result<(), String> {
    let n = model.versym.len();
    for i in 0..n + 2 {
        let ctx = |w: &str| format!("{}: {}({}) with versym[{}]={}", via, w, i, i, model.versym.get(i).map(|v| format!("{:#06x}", v)).unwrap_or("<beyond table>".into()));
        let req = t.get_requirement(i);
        let def = t.get_definition(i);
        if i >= n {
            if let Ok(Some(r)) = &req {
                return Err(format!("{}: returned {:?} for a symbol index beyond the versym table", ctx("get_requirement"), r));
            }
            if let Ok(Some(d)) = &def {
                return Err(format!("{}: returned a definition (hash {:#x}) for a symbol index beyond the versym table", ctx("get_definition"), d.hash));
            }
            obs.count("beyond_table_queries", 2);
            continue;
        }
        let v = model.versym[i];
        let idx = v & 0x7fff;
        let hidden = v & 0x8000 != 0;
        // requirement
        let want_req = if has_needs { model.needs.iter().flat_map(|nd| nd.auxes.iter().map(move |a| (nd, a))).find(|(_, a)| a.other == idx) } else { None };
        match (req, want_req) {
            (Ok(Some(r)), Some((nd, a))) => {
                if r.file != nd.file || r.name != a.name || r.hash != a.hash || r.flags != a.flags || r.hidden != hidden {
                    return Err(format!("{}: returned {:?}; the model says file {:?} name {:?} hash {:#x} flags {:#x} hidden {}", ctx("get_requirement"), r, nd.file, a.name, a.hash, a.flags, hidden));
                }
                obs.count("requirements_matched", 1);
                if hidden {
                    obs.label("hidden_requirement");
                }
            }
            (Ok(None), None) => obs.count("requirement_none", 1),
            (Ok(Some(r)), None) => return Err(format!("{}: returned {:?} but no auxiliary record has index {}", ctx("get_requirement"), r, idx)),
            (Ok(None), Some((nd, a))) => return Err(format!("{}: returned None but file {:?} has version {:?} with index {}", ctx("get_requirement"), nd.file, a.name, idx)),
            (Err(e), w) => return Err(format!("{}: failed with {} (model: {:?})", ctx("get_requirement"), err_name(&e), w.map(|(nd, a)| (&nd.file, &a.name)))),
        }
        // definition
        let want_def = if has_defs { model.defs.iter().find(|d| d.ndx == idx) } else { None };
        match (def, want_def) {
            (Ok(Some(d)), Some(w)) => {
                let mut names = vec![];
                for nm in d.names {
                    match nm {
                        Ok(s) => names.push(s.to_string()),
                        Err(e) => return Err(format!("{}: a definition name failed with {}", ctx("get_definition"), err_name(&e))),
                    }
                    if names.len() > w.names.len() + 1 {
                        break;
                    }
                }
                // the same names through nth() on a fresh iterator (an overridden nth must follow the links as next() does)
                if !w.names.is_empty() {
                    for k in [0usize, 1, w.names.len() - 1, w.names.len()] {
                        if let Ok(Some(d2)) = t.get_definition(i) {
                            let mut it = d2.names;
                            let got = it.nth(k).map(|r| r.map(|s| s.to_string()).map_err(|e| err_name(&e)));
                            let want = w.names.get(k).cloned().map(Ok);
                            if got != want {
                                return Err(format!("{}: names.nth({}) = {:?}; the model's names are {:?}", ctx("get_definition"), k, got, w.names));
                            }
                        }
                    }
                }
                if d.hash != w.hash || d.flags != w.flags || d.hidden != hidden || names != w.names {
                    return Err(format!("{}: returned hash {:#x} flags {:#x} hidden {} names {:?}; the model says hash {:#x} flags {:#x} hidden {} names {:?}", ctx("get_definition"), d.hash, d.flags, d.hidden, names, w.hash, w.flags, hidden, w.names));
                }
                obs.count("definitions_matched", 1);
                if hidden {
                    obs.label("hidden_definition");
                }
            }
            (Ok(None), None) => obs.count("definition_none", 1),
            (Ok(Some(d)), None) => return Err(format!("{}: returned a definition (hash {:#x}) but no definition has index {}", ctx("get_definition"), d.hash, idx)),
            (Ok(None), Some(w)) => return Err(format!("{}: returned None but definition {:?} has index {}", ctx("get_definition"), w.names, idx)),
            (Err(e), _) => return Err(format!("{}: failed with {}", ctx("get_definition"), err_name(&e))),
        }
    }
    Ok(())
}

fn standalone<E: EndianParse>(e: E, class: Class, s: &VerSections, model: &VerModel, lead: (usize, usize), obs: &mut Obs) -> Result<(), String> {
    let ids = VersionIndexTable::new(e, class, &s.versym);
    // the record sections may be handed over with leading bytes and the matching starting offset
    let mut vn = vec![0xA5u8; lead.0];
    vn.extend_from_slice(&s.verneed);
    let mut vd = vec![0x5Au8; lead.1];
    vd.extend_from_slice(&s.verdef);
    let needs = if model.needs.is_empty() { None } else { Some((VerNeedIterator::new(e, class, model.needs.len() as u64, lead.0, &vn), StringTable::new(&s.need_strs))) };
    let defs = if model.defs.is_empty() { None } else { Some((VerDefIterator::new(e, class, model.defs.len() as u64, lead.1, &vd), StringTable::new(&s.def_strs))) };
    obs.label_if(lead.0 != 0 || lead.1 != 0, "nonzero_starting_offset");
    // the record iterators themselves: nth(k) on a fresh auxiliary iterator is the k-th item of repeated next()
    if !model.needs.is_empty() {
        let mk = || VerNeedIterator::new(e, class, model.needs.len() as u64, lead.0, &vn);
        for (j, (_, auxes)) in mk().enumerate().take(40) {
            let all: Vec<_> = auxes.take(64).collect();
            for k in [0usize, 1, all.len().saturating_sub(1), all.len()] {
                let got = mk().nth(j).and_then(|(_, mut a)| a.nth(k));
                if got.as_ref() != all.get(k) {
                    return Err(format!("VerNeedAuxIterator of needed file #{}: nth({}) = {:?}; repeated next() gives {:?}", j, k, got, all.get(k)));
                }
            }
        }
    }
    if !model.defs.is_empty() {
        let mk = || VerDefIterator::new(e, class, model.defs.len() as u64, lead.1, &vd);
        for (j, (_, auxes)) in mk().enumerate().take(40) {
            let all: Vec<_> = auxes.take(64).collect();
            for k in [0usize, 1, all.len().saturating_sub(1), all.len()] {
                let got = mk().nth(j).and_then(|(_, mut a)| a.nth(k));
                if got.as_ref() != all.get(k) {
                    return Err(format!("VerDefAuxIterator of definition #{}: nth({}) = {:?}; repeated next() gives {:?}", j, k, got, all.get(k)));
                }
            }
        }
    }
    let t = SymbolVersionTable::new(ids, needs, defs);
    check_table(&t, model, !model.needs.is_empty(), !model.defs.is_empty(), obs, "SymbolVersionTable::new")
}

fn oracle(case: &[u8], obs: &mut Obs) -> Result<(), String> {
    let mut c = Choice::new(case);
    let enc = ALL_ENC[c.below(4) as usize];
    let spec = specs_for(enc.le)[c.below(2) as usize];
    let class = class_of(enc);
    let big = c.chance(24);
    let model = if big { refs::gen_version_model(&mut c, 40, 20, 40, 60) } else { refs::gen_version_model(&mut c, 6, 5, 6, 24) };
    let contiguous = c.chance(64);
    let share = c.bool();
    let s = refs::build_versions(enc, &model, &mut c, contiguous, share);
    let via = c.below(3);
    match via {
        0 => {
            let lead = if c.chance(100) { (c.below(40) as usize, c.below(40) as usize) } else { (0, 0) };
            with_endian!(spec, |e| standalone(e, class, &s, &model, lead, obs))?
        }
        _ => {
            // through a complete file: .gnu.version / .gnu.version_r / .gnu.version_d wired by sh_link / sh_info
            let mut f = FileSpec::new(enc);
            f.add_sec(b"", m::SHT_NULL, vec![]);
            let mut order: Vec<u8> = vec![0, 1, 2, 3, 4];
            for i in (1..order.len()).rev() {
                let j = c.idx(i + 1);
                order.swap(i, j);
            }
            let mut i_nstr = 0;
            let mut i_dstr = 0;
            let mut i_need = None;
            let mut i_def = None;
            for k in order {
                match k {
                    0 => {
                        let i = f.add_sec(b".gnu.version", m::SHT_GNU_VERSYM, s.versym.clone());
                        f.secs[i].hdr.sh_entsize = 2;
                    }
                    1 if !model.needs.is_empty() => {
                        let i = f.add_sec(b".gnu.version_r", m::SHT_GNU_VERNEED, s.verneed.clone());
                        f.secs[i].hdr.sh_info = model.needs.len() as u32;
                        i_need = Some(i);
                    }
                    2 if !model.defs.is_empty() => {
                        let i = f.add_sec(b".gnu.version_d", m::SHT_GNU_VERDEF, s.verdef.clone());
                        f.secs[i].hdr.sh_info = model.defs.len() as u32;
                        i_def = Some(i);
                    }
                    3 => i_nstr = f.add_sec(b".dynstr", m::SHT_STRTAB, s.need_strs.clone()),
                    4 => i_dstr = f.add_sec(b".defstr", m::SHT_STRTAB, s.def_strs.clone()),
                    _ => {}
                }
            }
            // half of the files: a .dynsym with exactly one symbol per versym entry, named by .gnu.version's sh_link as
            // the tool chains do (class-sized entries: 16 bytes in ELF32, 24 in ELF64)
            if c.bool() {
                let n = model.versym.len();
                let i_sym = f.add_sec(b".dynsym", m::SHT_DYNSYM, vec![0u8; n * m::sym_size(enc)]);
                f.secs[i_sym].hdr.sh_entsize = m::sym_size(enc) as u64;
                f.secs[i_sym].hdr.sh_link = i_nstr as u32;
                if let Some(iv) = f.secs.iter().position(|s| s.hdr.sh_type == m::SHT_GNU_VERSYM) {
                    f.secs[iv].hdr.sh_link = i_sym as u32;
                }
                obs.label("versym_linked_to_a_dynsym");
            }
            if let Some(i) = i_need {
                f.secs[i].hdr.sh_link = i_nstr as u32;
            }
            if let Some(i) = i_def {
                f.secs[i].hdr.sh_link = i_dstr as u32;
            }
            // one file in 64 is larger than 1 MiB (as real shared libraries are): offsets, counts and distances that
            // do not fit 16 bits or 20 bits
            let bulk = c.u8();
            if bulk >= 252 {
                f.add_sec(b".bulk", m::SHT_PROGBITS, vec![0u8; (1 << 20) + 16 + c.below(1 << 20) as usize]);
                obs.label("file_above_1MiB");
            }
            // rarely: about 0xff00 empty sections in front, so that the version sections and the string tables they
            // link to sit at section indexes in and around 0xff00..0xffff
            if bulk == 0x5D || bulk == 0x5E {
                let k = 0xff00 - 4 + c.below(0x108) as usize;
                filegen::insert_fillers(&mut f, 1, k);
                if let Some(i) = i_need.as_mut() {
                    *i += k;
                }
                if let Some(i) = i_def.as_mut() {
                    *i += k;
                }
                obs.label("0xff00_or_more_sections");
            }
            filegen::random_layout(&mut c, &mut f, 24);
            let mut b = filegen::build(&f);
            if (236..252).contains(&bulk) {
                // trailing bytes after the end of everything (they change no answer), sized so that the distance from a
                // byte of a version section to the end of the file is just above a multiple of 2^16 records
                let anchors: Vec<usize> = [i_need, i_def].iter().flatten().copied().collect();
                if !anchors.is_empty() {
                    let (off, len) = b.body_at[anchors[c.idx(anchors.len())]];
                    let anchor = off + c.below(len as u64 + 1) as usize;
                    let rec = *c.pick(&[16usize, 16, 20, 8, 2, 1]);
                    let target = anchor + rec * 65536 * (1 + c.below(2) as usize) + c.below(20 * rec as u64 + 1) as usize;
                    if target > b.bytes.len() {
                        b.bytes.resize(target, 0);
                        obs.label("file_padded_to_2^16_records_after_a_version_section");
                    }
                }
            }
            if via == 1 {
                with_endian!(spec, |e| {
                    let file = open_as(e, &b.bytes).map_err(|er| format!("harness: generated file does not open: {}", err_name(&er)))?;
                    let t = file.symbol_version_table().map_err(|er| format!("ElfBytes::symbol_version_table failed with {}", err_name(&er)))?.ok_or("ElfBytes::symbol_version_table returned None although .gnu.version exists")?;
                    check_table(&t, &model, i_need.is_some(), i_def.is_some(), obs, "ElfBytes::symbol_version_table")
                })?
            } else {
                with_endian!(spec, |e| {
                    let mut file = open_stream_as(e, std::io::Cursor::new(&b.bytes)).map_err(|er| format!("harness: generated file does not open as a stream: {}", err_name(&er)))?;
                    let t = file.symbol_version_table().map_err(|er| format!("ElfStream::symbol_version_table failed with {}", err_name(&er)))?.ok_or("ElfStream::symbol_version_table returned None although .gnu.version exists")?;
                    check_table(&t, &model, i_need.is_some(), i_def.is_some(), obs, "ElfStream::symbol_version_table")
                })?
            }
        }
    }
    let multi_need = model.needs.iter().filter(|n| n.auxes.len() >= 2).count() >= 2;
    let multi_def = model.defs.iter().filter(|d| d.names.len() >= 2).count() >= 2;
    let has_hidden = model.versym.iter().any(|v| v & 0x8000 != 0);
    obs.label(["standalone", "via_elfbytes", "via_elfstream"][via as usize]);
    obs.label_if(s.non_contiguous, "non_contiguous_layout");
    obs.label_if(multi_need, "2+files_with_2+aux");
    obs.label_if(multi_def, "2+defs_with_2+names");
    obs.label_if(big, "large_model");
    if ((multi_need && s.non_contiguous) || multi_def) && has_hidden {
        obs.nontrivial();
    }
    obs.key = fnv64(&s.versym) ^ fnv64(&s.verneed).rotate_left(11) ^ fnv64(&s.verdef).rotate_left(23) ^ (via as u64) << 61 ^ (spec as u64) << 58 ^ (enc.c64 as u64) << 57;
    let via_name = ["SymbolVersionTable::new", "ElfBytes", "ElfStream"][via as usize];
    obs.describe(|| {
        json!({"enc": enc.name(), "spec": SPEC_NAMES[spec as usize], "via": via_name, "contiguous_layout": !s.non_contiguous,
        "needs": model.needs.iter().map(|n| json!({"file": n.file, "aux": n.auxes.iter().map(|a| format!("{}#{}", a.name, a.other)).collect::<Vec<_>>()})).collect::<Vec<_>>(),
        "defs": model.defs.iter().map(|d| json!({"ndx": d.ndx, "names": d.names})).collect::<Vec<_>>(),
        "versym": model.versym.iter().map(|v| format!("{:#x}", v)).collect::<Vec<_>>()})
    });
    Ok(())
}

pub fn property() -> Property {
    Property {
        id: "C13",
        level: "exploration",
        rule: "cases are a version model (0..40 needed files x 0..20 auxiliary records with unique indexes>=2, names, hashes, flags; 0..40 definitions with unique indexes>=1 disjoint from the needs and 1..5 names; a versym array mixing 0, 1, defined, needed, unknown indexes, each optionally with bit 15) laid out by an independent builder: records in a random linear extension of the forward partial order (each Verneed/Verdef before its successor and before its own aux chain, aux chains of different parents interleaved, random garbage gaps, first record at section offset 0) or contiguously, next/aux links as increments, shared or separate string tables, class x order x fixed/run-time spec, queried through SymbolVersionTable::new on bare sections (40% with leading bytes and the matching non-zero starting offset), ElfBytes::symbol_version_table and ElfStream::symbol_version_table on a generated file (sh_link/sh_info wiring, shuffled section order; half of the files with a .dynsym of one symbol per versym entry named by .gnu.version's sh_link; one file in 64 carries an extra section of 1..2 MiB placed anywhere in the layout, one in 128 has about 0xff00 empty sections in front, one in 16 is followed by trailing zero bytes such that the distance from a byte of .gnu.version_r/.gnu.version_d to the end of the file is k*65536*{1,2,8,16,20} plus a few records). Oracle for every symbol index 0..n+2: get_requirement = the model's (file,name,hash,flags,hidden) for index versym[i]&0x7fff or None; get_definition = (hash,flags,hidden,names in order) or None; beyond the table never Some; nth(k) on fresh name / auxiliary iterators equals the k-th item of repeated next(). Non-trivial: (>=2 files with >=2 aux each in non-contiguous layout, or >=2 definitions with >=2 names) and a hidden versym entry; distinct by section-bytes hash.",
        assumptions: &["well-formedness as the statement scopes it: unique version indexes, vna_other without bit 15, forward links only, UTF-8 names, version 1 records"],
        subs: vec![Sub::new("versions", oracle, 6000, 600_000, 20_000_000)],
        extras: vec![crate::fuzz::c13_choice],
    }
}
