//! C05 — header tables are located exactly as the ELF header (and shdr[0]) declare.
use crate::common::*;
use crate::conv;
use crate::with_endian;
use verif_model::elfw as m;
use verif_model::filegen::{self, FileSpec, Override, Piece, Seg, Target};
use verif_model::refs;

#[derive(Debug)]
struct Expect {
    sh: Option<(u64, u64)>,
    ph: Option<(u64, u64)>,
}

/// The statement's rule, evaluated on the header values the file really holds.
fn expected(b: &filegen::Built, data: &[u8]) -> Result<Result<Expect, String>, &'static str> {
    let enc = b.enc();
    let len = data.len() as u64;
    let eh = &b.ehdr;
    let shs = m::shdr_size(enc) as u64;
    let phs = m::phdr_size(enc) as u64;
    if len < m::ehdr_size(enc) as u64 {
        return Ok(Err("the ELF header itself does not fit".into()));
    }
    let shdr0 = || -> Option<m::Shdr> {
        let end = eh.e_shoff.checked_add(shs)?;
        if end > len {
            return None;
        }
        refs::read_shdr(enc, data, eh.e_shoff as usize)
    };
    let sh = if eh.e_shoff == 0 {
        None
    } else {
        let n = if eh.e_shnum == 0 {
            match shdr0() {
                Some(h) => h.sh_size,
                None => return Ok(Err("shdr[0] (needed for e_shnum==0) does not fit".into())),
            }
        } else {
            eh.e_shnum as u64
        };
        if eh.e_shentsize as u64 != shs {
            return Ok(Err(format!("e_shentsize {} != {}", eh.e_shentsize, shs)));
        }
        match shs.checked_mul(n).and_then(|s| eh.e_shoff.checked_add(s)) {
            Some(end) if end <= len => Some((eh.e_shoff, n)),
            _ => return Ok(Err("section header table does not fit".into())),
        }
    };
    let ph = if eh.e_phoff == 0 {
        None
    } else {
        let n = if eh.e_phnum == 0xffff {
            if eh.e_shoff == 0 {
                return Err("PN_XNUM_without_section_table");
            }
            match shdr0() {
                Some(h) => h.sh_info as u64,
                None => return Ok(Err("shdr[0] (needed for PN_XNUM) does not fit".into())),
            }
        } else {
            eh.e_phnum as u64
        };
        if eh.e_phentsize as u64 != phs {
            return Ok(Err(format!("e_phentsize {} != {}", eh.e_phentsize, phs)));
        }
        match phs.checked_mul(n).and_then(|s| eh.e_phoff.checked_add(s)) {
            Some(end) if end <= len => Some((eh.e_phoff, n)),
            _ => return Ok(Err("program header table does not fit".into())),
        }
    };
    Ok(Ok(Expect { sh, ph }))
}

fn pick_indices(n: u64, c: &mut Choice) -> Vec<usize> {
    if n == 0 {
        return vec![];
    }
    let mut v = vec![0, 1, n / 2, n - 1, n.saturating_sub(2)];
    for _ in 0..4 {
        v.push(c.below(n));
    }
    v.retain(|i| *i < n);
    v.sort();
    v.dedup();
    v.into_iter().map(|x| x as usize).collect()
}

fn entsize_variant(c: &mut Choice, right: u64, other_class: u64) -> u64 {
    match c.below(10) {
        0 => 0,
        1 => right - 1,
        2 => right + 1,
        3 => other_class,
        4 => 0xffff,
        5 => c.val(64),
        _ => right,
    }
}

fn oracle(case: &[u8], obs: &mut Obs) -> Result<(), String> {
    let mut c = Choice::new(case);
    let enc = ALL_ENC[c.below(4) as usize];
    let other = Enc { c64: !enc.c64, le: enc.le };
    let spec = specs_for(enc.le)[c.below(2) as usize];
    let big = c.chance(20);
    let nsec: usize = if big {
        *c.pick(&[0xfeffusize, 0xff00, 0xff01, 0xff20, 0xffff, 0x10000])
    } else {
        match c.below(10) {
            0 => 0,
            1 => 1,
            2 => 100 + c.below(1900) as usize,
            _ => 2 + c.below(14) as usize,
        }
    };
    let nseg: usize = if c.chance(12) && nsec > 0 {
        *c.pick(&[0xfffeusize, 0xffff, 0x10000, 0x10010])
    } else {
        match c.below(8) {
            0 => 0,
            _ => c.below(9) as usize,
        }
    };
    let mut f = FileSpec::new(enc);
    let mut special = vec![];
    for i in 0..nsec {
        f.add_sec(b"", if i == 0 { m::SHT_NULL } else { m::SHT_PROGBITS }, vec![]);
        f.secs[i].hdr.sh_addr = (i as u64) * 3 + 1;
        f.secs[i].hdr.sh_info = (i as u32) ^ 0x5a5a;
    }
    // special sections among the first entries: two string tables with different contents, symbol tables,
    // versym and dynamic with right or wrong sh_entsize
    let mut shstr_idx: Option<usize> = None;
    let mut ent: [Option<(usize, u64, u64)>; 4] = [None; 4]; // (index, entsize given, right)
    if nsec >= 8 {
        let mut slots: Vec<usize> = (1..nsec.min(14)).collect();
        for i in (1..slots.len()).rev() {
            let j = c.idx(i + 1);
            slots.swap(i, j);
        }
        let s1 = slots[0];
        let s2 = slots[1];
        f.secs[s1].hdr.sh_type = m::SHT_STRTAB;
        f.secs[s1].body = b"\0name_one\0second\0".to_vec();
        f.secs[s2].hdr.sh_type = m::SHT_STRTAB;
        f.secs[s2].body = b"\0other_tab\0zzz\0".to_vec();
        special.push(s1);
        special.push(s2);
        shstr_idx = match c.below(4) {
            0 => None,
            1 => Some(s2),
            _ => Some(s1),
        };
        let kinds = [(m::SHT_SYMTAB, m::sym_size(enc) as u64, m::sym_size(other) as u64), (m::SHT_DYNSYM, m::sym_size(enc) as u64, m::sym_size(other) as u64), (m::SHT_GNU_VERSYM, 2, 4), (m::SHT_DYNAMIC, m::dyn_size(enc) as u64, m::dyn_size(other) as u64)];
        for (k, (ty, right, oc)) in kinds.iter().enumerate() {
            if c.chance(150) {
                let i = slots[2 + k];
                f.secs[i].hdr.sh_type = *ty;
                f.secs[i].body = vec![0u8; (*right as usize) * (1 + c.below(3) as usize)];
                f.secs[i].hdr.sh_link = s1 as u32;
                let es = entsize_variant(&mut c, *right, *oc);
                f.secs[i].hdr.sh_entsize = es;
                ent[k] = Some((i, es & enc.word_mask(), *right));
            }
        }
    }
    for i in 0..nseg {
        f.segs.push(Seg { hdr: m::Phdr { p_type: m::PT_LOAD, p_vaddr: (i as u64) * 5 + 2, p_flags: (i as u32) ^ 0xa5, p_memsz: 1, ..Default::default() }, covers: None });
    }
    // a PT_DYNAMIC segment over the .dynamic section's bytes in half of the files that have both: a wrong sh_entsize
    // must be refused although a usable segment exists
    if let (Some((i, _, _)), true) = (ent[3], nseg > 0 && nseg < 0xffff) {
        if c.bool() {
            let k = c.idx(nseg.min(8));
            f.segs[k].hdr.p_type = m::PT_DYNAMIC;
            f.segs[k].covers = Some(i);
        }
    }
    // layout: tables anywhere; optionally a table is the last piece so that it touches EOF (or is one byte short)
    filegen::random_layout(&mut c, &mut f, 40);
    let eof_mode = c.below(5);
    if eof_mode >= 3 {
        let last = if eof_mode == 3 { Piece::Shdrs } else { Piece::Phdrs };
        f.order.retain(|p| *p != last);
        f.order.push(last);
        f.tail_pad = 0;
    }
    f.shstrndx = shstr_idx;
    // header variants
    let mut note = String::new();
    let hv = c.u8();
    if nsec > 0 && nsec < 0xff00 && (200..240).contains(&hv) {
        // extended numbering declaring ANY count (boundary values, counts whose product with the entry size wraps
        // around 2^64 to something small, ...): the rule decides from the declared value
        let v = c.val(64);
        f.overrides.push(Override { target: Target::Ehdr, field: "e_shnum", value: 0 });
        f.overrides.push(Override { target: Target::Shdr(0), field: "sh_size", value: v });
        note.push_str(&format!("e_shnum=0+shdr0.sh_size={:#x}(raw);", v));
        if nseg > 0 && c.bool() {
            let v = c.val(32);
            f.overrides.push(Override { target: Target::Ehdr, field: "e_phnum", value: 0xffff });
            f.overrides.push(Override { target: Target::Shdr(0), field: "sh_info", value: v });
            note.push_str(&format!("e_phnum=PN_XNUM+shdr0.sh_info={:#x}(raw);", v));
        }
    } else if nsec > 0 && nsec < 0xff00 && hv >= 240 {
        // extended numbering resolving to an EMPTY table: e_shnum = 0 and shdr[0].sh_size = 0
        f.overrides.push(Override { target: Target::Ehdr, field: "e_shnum", value: 0 });
        f.overrides.push(Override { target: Target::Shdr(0), field: "sh_size", value: 0 });
        note.push_str("e_shnum=0+shdr0.sh_size=0;");
    } else if nsec > 0 && nsec < 0xff00 && c.chance(40) {
        f.overrides.push(Override { target: Target::Ehdr, field: "e_shnum", value: 0 });
        f.overrides.push(Override { target: Target::Shdr(0), field: "sh_size", value: nsec as u64 });
        note.push_str("e_shnum=0+shdr0.sh_size;");
    }
    if nsec > 0 && nseg > 0 && nseg < 0xffff && !note.contains("PN_XNUM") && c.chance(40) {
        f.overrides.push(Override { target: Target::Ehdr, field: "e_phnum", value: 0xffff });
        f.overrides.push(Override { target: Target::Shdr(0), field: "sh_info", value: nseg as u64 });
        note.push_str("e_phnum=PN_XNUM+shdr0.sh_info;");
    }
    if let Some(i) = shstr_idx {
        if i < 0xff00 && c.chance(40) {
            f.overrides.push(Override { target: Target::Ehdr, field: "e_shstrndx", value: 0xffff });
            let lv = if c.chance(50) { 0 } else { i as u64 };
            f.overrides.push(Override { target: Target::Shdr(0), field: "sh_link", value: lv });
            note.push_str("e_shstrndx=SHN_XINDEX+shdr0.sh_link;");
        }
    }
    if c.chance(40) {
        // a raw e_shstrndx in the reserved range below SHN_XINDEX is used as declared (only 0xffff escapes)
        let v = 0xff00 + c.below(0xff);
        f.overrides.push(Override { target: Target::Ehdr, field: "e_shstrndx", value: v });
        if nsec > 0 {
            f.overrides.push(Override { target: Target::Shdr(0), field: "sh_link", value: shstr_idx.unwrap_or(1) as u64 });
        }
        note.push_str(&format!("e_shstrndx={:#x} (reserved, not XINDEX);", v));
    }
    if c.chance(50) {
        let v = entsize_variant(&mut c, m::shdr_size(enc) as u64, m::shdr_size(other) as u64) & 0xffff;
        f.overrides.push(Override { target: Target::Ehdr, field: "e_shentsize", value: v });
        note.push_str(&format!("e_shentsize={};", v));
    }
    if c.chance(50) {
        let v = entsize_variant(&mut c, m::phdr_size(enc) as u64, m::phdr_size(other) as u64) & 0xffff;
        f.overrides.push(Override { target: Target::Ehdr, field: "e_phentsize", value: v });
        note.push_str(&format!("e_phentsize={};", v));
    }
    if c.chance(16) {
        f.overrides.push(Override { target: Target::Ehdr, field: "e_shoff", value: 0 });
        note.push_str("e_shoff=0;");
    }
    if c.chance(16) {
        f.overrides.push(Override { target: Target::Ehdr, field: "e_phoff", value: 0 });
        note.push_str("e_phoff=0;");
    }
    if c.chance(24) {
        let fld = *c.pick(&["e_shnum", "e_phnum", "e_shoff", "e_phoff"]);
        let v = filegen::boundary_for(&mut c, 2000, 0);
        f.overrides.push(Override { target: Target::Ehdr, field: fld, value: v });
        note.push_str(&format!("{}={:#x};", fld, v));
    }
    let b = filegen::build(&f);
    let mut data = b.bytes.clone();
    let cut_max: u64 = if c.bool() { 2 } else { 48 };
    let cut = if eof_mode >= 3 && c.bool() { 1 + c.below(cut_max) as usize } else { 0 };
    let nl = data.len().saturating_sub(cut);
    data.truncate(nl);
    let exp = match expected(&b, &data) {
        Ok(e) => e,
        Err(why) => {
            obs.skip(why);
            return Ok(());
        }
    };
    let ctx = format!("{} {} file of {} bytes, {} sections, {} segments, e_shoff {:#x} e_shnum {} e_shentsize {} e_phoff {:#x} e_phnum {} e_phentsize {} e_shstrndx {} [{}] cut {}", enc.name(), SPEC_NAMES[spec as usize], data.len(), nsec, nseg, b.ehdr.e_shoff, b.ehdr.e_shnum, b.ehdr.e_shentsize, b.ehdr.e_phoff, b.ehdr.e_phnum, b.ehdr.e_phentsize, b.ehdr.e_shstrndx, note, cut);
    let mut compared = 0u64;
    let r: Result<(), String> = with_endian!(spec, |e| (|| -> Result<(), String> {
        let rb = open_as(e, &data);
        // the reader may be handed over with its cursor away from the start
        let pos0 = match c.below(8) {
            0 => 16,
            1 => c.below(data.len() as u64 + 1),
            _ => 0,
        };
        // (and may deliver short reads and ErrorKind::Interrupted, which read_exact-style loops must ride out)
        let (chunks, intr) = crate::stream::gen_reader_behaviour(&mut c, 1);
        let rs = open_stream_as(e, verif_model::io::Reader::with(data.clone(), chunks.clone(), intr, vec![]).at_position(pos0));
        // the same file behind a stream that cannot seek relative to its end (it may refuse it, but must not open it
        // with tables other than the declared ones)
        let ek = (data.len() % 8) as u8;
        if let Ok(fs2) = open_stream_as(e, verif_model::io::Reader::new(data.clone()).at_position(pos0).without_seek_end(ek)) {
            let what = format!("ElfStream over a stream whose SeekFrom::End fails with {:?}", verif_model::io::ERROR_KINDS[ek as usize]);
            match &exp {
                Err(why) => return Err(format!("{} opened the file although {}", what, why)),
                Ok(x) => {
                    if fs2.section_headers().len() as u64 != x.sh.map(|t| t.1).unwrap_or(0) || fs2.segments().len() as u64 != x.ph.map(|t| t.1).unwrap_or(0) {
                        return Err(format!("{} has {} section headers and {} program headers; declared {:?} / {:?}", what, fs2.section_headers().len(), fs2.segments().len(), x.sh, x.ph));
                    }
                }
            }
        }
        match (&exp, &rb, &rs) {
            (Err(why), Ok(_), _) => return Err(format!("ElfBytes opened the file although {}", why)),
            (Err(why), _, Ok(_)) => return Err(format!("ElfStream opened the file although {}", why)),
            (Err(_), Err(_), Err(_)) => {
                obs.label("open_rejected_as_expected");
                return Ok(());
            }
            (Ok(_), Err(er), _) => return Err(format!("ElfBytes::minimal_parse failed with {} although the declared tables have the right entry sizes and fit", err_name(er))),
            (Ok(_), _, Err(er)) => return Err(format!("ElfStream::open_stream failed with {} although the declared tables have the right entry sizes and fit", err_name(er))),
            _ => {}
        }
        let x = exp.as_ref().unwrap();
        let fb = rb.unwrap();
        let mut fs = rs.unwrap();
        // section header table
        match (x.sh, fb.section_headers()) {
            (None, None) => {
                if !fs.section_headers().is_empty() {
                    return Err("ElfStream has section headers although e_shoff is 0".into());
                }
            }
            (Some((off, n)), Some(t)) => {
                if t.len() as u64 != n || fs.section_headers().len() as u64 != n {
                    return Err(format!("section header table has {} (slice) / {} (stream) entries, declared {}", t.len(), fs.section_headers().len(), n));
                }
                for i in pick_indices(n, &mut c) {
                    let want = refs::read_shdr(enc, &data, off as usize + i * m::shdr_size(enc)).ok_or("harness: shdr read")?;
                    let want = conv::shdr(&want, enc);
                    let got = t.get(i).map_err(|er| format!("section header {} of {}: {}", i, n, err_name(&er)))?;
                    if got != want || fs.section_headers()[i] != want {
                        return Err(format!("section header {} (at e_shoff + {}*entsize): slice {:?} stream {:?}, the file holds {:?}", i, i, got, fs.section_headers()[i], want));
                    }
                    compared += 1;
                }
            }
            (a, b2) => return Err(format!("section_headers() is {:?}-ish but the header declares {:?}", b2.map(|t| t.len()), a)),
        }
        match (x.ph, fb.segments()) {
            (None, None) => {
                if !fs.segments().is_empty() {
                    return Err("ElfStream has program headers although e_phoff is 0".into());
                }
            }
            (Some((off, n)), Some(t)) => {
                if t.len() as u64 != n || fs.segments().len() as u64 != n {
                    return Err(format!("program header table has {} (slice) / {} (stream) entries, declared {}", t.len(), fs.segments().len(), n));
                }
                for i in pick_indices(n, &mut c) {
                    let want = refs::read_phdr(enc, &data, off as usize + i * m::phdr_size(enc)).ok_or("harness: phdr read")?;
                    let want = conv::phdr(&want, enc);
                    let got = t.get(i).map_err(|er| format!("program header {} of {}: {}", i, n, err_name(&er)))?;
                    if got != want || fs.segments()[i] != want {
                        return Err(format!("program header {}: slice {:?} stream {:?}, the file holds {:?}", i, got, fs.segments()[i], want));
                    }
                    compared += 1;
                }
            }
            (a, b2) => return Err(format!("segments() is {:?}-ish but the header declares {:?}", b2.map(|t| t.len()), a)),
        }
        // section-name string table designated by e_shstrndx / shdr[0].sh_link
        if let Some((off, n)) = x.sh {
            if n > 0 {
                let sh0 = refs::read_shdr(enc, &data, off as usize).ok_or("harness: shdr0")?;
                let idx: u64 = match b.ehdr.e_shstrndx {
                    0 => u64::MAX,
                    0xffff => sh0.sh_link as u64,
                    v => v as u64,
                };
                let rb2 = fb.section_headers_with_strtab();
                let rs2 = fs.section_headers_with_strtab();
                if idx == u64::MAX {
                    if !matches!(rb2, Ok((Some(_), None))) || !matches!(rs2, Ok((_, None))) {
                        return Err("section_headers_with_strtab returned a string table although e_shstrndx is SHN_UNDEF".into());
                    }
                } else if idx >= n {
                    if rb2.is_ok() || rs2.is_ok() {
                        return Err(format!("section_headers_with_strtab succeeded although the designated index {} is outside the table of {}", idx, n));
                    }
                } else {
                    let h = refs::read_shdr(enc, &data, off as usize + idx as usize * m::shdr_size(enc)).ok_or("harness: strtab shdr")?;
                    let fits = h.sh_offset.checked_add(h.sh_size).map(|e2| e2 <= data.len() as u64).unwrap_or(false);
                    match (fits, rb2, rs2) {
                        (true, Ok((_, Some(tb))), Ok((_, Some(ts)))) => {
                            let body = &data[h.sh_offset as usize..(h.sh_offset + h.sh_size) as usize];
                            for k in [1usize, 5, 10] {
                                let want = if k < body.len() { body[k..].iter().position(|z| *z == 0).map(|p| &body[k..k + p]) } else { None };
                                let gb = tb.get_raw(k).ok();
                                let gs = ts.get_raw(k).ok();
                                if gb != want || gs != want {
                                    return Err(format!("the section-name string table is not the section designated by index {}: string at {} is {:?} (slice) / {:?} (stream), the designated section holds {:?}", idx, k, gb, gs, want));
                                }
                            }
                            compared += 1;
                            obs.label("shstrtab_checked");
                        }
                        (false, Err(_), Err(_)) => {}
                        (fits, rb2, rs2) => return Err(format!("section_headers_with_strtab: designated section {} fits={} but slice={} stream={}", idx, fits, rb2.is_ok(), rs2.is_ok())),
                    }
                }
            }
        }
        // sh_entsize validation (only when the section table is the generated one)
        if x.sh.map(|s| s.1) == Some(nsec as u64) && x.sh.map(|s| s.0) == Some(b.shoff as u64) && cut == 0 {
            let names = ["symbol_table", "dynamic_symbol_table", "symbol_version_table", "dynamic"];
            for (k, e2) in ent.iter().enumerate() {
                let Some((_, given, right)) = e2 else { continue };
                let ok_b = match k {
                    0 => fb.symbol_table().map(|o| o.is_some()),
                    1 => fb.dynamic_symbol_table().map(|o| o.is_some()),
                    2 => fb.symbol_version_table().map(|o| o.is_some()),
                    _ => fb.dynamic().map(|o| o.is_some()),
                };
                let ok_s = match k {
                    0 => Some(fs.symbol_table().map(|o| o.is_some())),
                    1 => Some(fs.dynamic_symbol_table().map(|o| o.is_some())),
                    2 => Some(fs.symbol_version_table().map(|o| o.is_some())),
                    _ => None,
                };
                let want_ok = given == right;
                let show = |r: &Result<bool, ParseError>| match r {
                    Ok(b3) => format!("Ok(present={})", b3),
                    Err(e3) => format!("Err({})", err_name(e3)),
                };
                if want_ok != matches!(ok_b, Ok(true)) || (!want_ok && ok_b.is_ok()) {
                    return Err(format!("ElfBytes::{}() = {} for a section whose sh_entsize is {} (structure size {})", names[k], show(&ok_b), given, right));
                }
                if let Some(os) = ok_s {
                    if want_ok != matches!(os, Ok(true)) || (!want_ok && os.is_ok()) {
                        return Err(format!("ElfStream::{}() = {} for a section whose sh_entsize is {} (structure size {})", names[k], show(&os), given, right));
                    }
                }
                compared += 1;
                obs.label_if(!want_ok, "wrong_sh_entsize_rejected");
            }
            // the one-pass discovery hands out symbol tables and the dynamic table too: the same entry-size check must
            // refuse them there (kinds 0, 1 and 3; .gnu.version is not part of the common data)
            let any_wrong = ent.iter().enumerate().any(|(k, e2)| k != 2 && matches!(e2, Some((_, g, r)) if g != r));
            if any_wrong {
                if let Ok(cd) = fb.find_common_data() {
                    return Err(format!("ElfBytes::find_common_data() succeeded (symtab {}, dynsyms {}, dynamic {}) although a symbol table or the dynamic section has a wrong sh_entsize", cd.symtab.is_some(), cd.dynsyms.is_some(), cd.dynamic.is_some()));
                }
            }
        }
        Ok(())
    })());
    r.map_err(|s| format!("{}: {}", ctx, s))?;
    obs.count("entries_compared", compared);
    let xnum = b.used_xnum || note.contains("shdr0");
    let wrong_ent = note.contains("entsize") || ent.iter().flatten().any(|(_, g, r)| g != r);
    obs.label_if(xnum, "extended_numbering");
    obs.label_if(big, "big_section_table");
    obs.label_if(nseg >= 0xfffe, "big_program_header_table");
    obs.label_if(wrong_ent, "wrong_entsize");
    obs.label_if(eof_mode >= 3, "table_touching_eof");
    obs.label_if(exp.is_ok(), "opened");
    if xnum || wrong_ent || eof_mode >= 3 {
        obs.nontrivial();
    }
    obs.key = fnv64(&data[..data.len().min(4096)]) ^ (data.len() as u64) << 20 ^ spec as u64;
    obs.describe(|| json!({"file": ctx, "expected_open": format!("{:?}", exp)}));
    Ok(())
}

pub fn property() -> Property {
    Property {
        id: "C05",
        level: "exploration",
        rule: "cases are generated files: section counts from {0,1,2..15,100..2000, 0xfeff,0xff00,0xff01,0xff20,0xffff,0x10000}, program header counts from {0..8, 0xfffe,0xffff,0x10000,0x10010}, extended numbering used when needed and also 'unnecessarily' (e_shnum=0 + shdr[0].sh_size, e_phnum=0xffff + shdr[0].sh_info, e_shstrndx=0xffff + shdr[0].sh_link with small values), two string tables with different contents of which e_shstrndx designates one, tables anywhere in a random layout incl. as last piece touching EOF or cut 1..48 bytes short, e_shentsize/e_phentsize from {0,right-1,right,right+1,other class's,0xffff,raw}, raw reserved e_shstrndx values 0xff00..0xfffe (used as declared), SHN_XINDEX with shdr[0].sh_link = 0, extended numbering resolving to an empty table (e_shnum = 0, shdr[0].sh_size = 0) or declaring any count (boundary values; counts whose product with the entry size wraps around 2^64 to a small number; byte-swapped small numbers), e_shoff/e_phoff forced to 0, the stream reader handed over with its cursor away from 0 and delivering short reads / ErrorKind::Interrupted, raw boundary values in e_shnum/e_phnum/e_shoff/e_phoff, and symtab/dynsym/versym/dynamic sections with right or wrong sh_entsize; every table entry carries an index fingerprint; class x order x fixed/run-time spec, both parsers. Oracle = the statement's rule evaluated on the header values the file really holds (independent reader): open succeeds iff present tables have the class's entry size and fit (shdr[0] readable when needed); then section_headers()/segments() are None/empty iff the offset is 0, else len == declared (possibly extended) count and entries at {0,1,mid,len-2,len-1}+4 random indices equal the file's bytes at offset+i*entsize; the name string table is the section designated by e_shstrndx/shdr[0].sh_link; wrong sh_entsize makes symbol_table, dynamic_symbol_table, symbol_version_table (both parsers) and dynamic (slice parser) fail, and so does find_common_data when a symbol table or the dynamic section is affected. Non-trivial: extended numbering, a wrong entsize, or a table touching EOF; distinct by file hash.",
        assumptions: &["e_phnum = 0xffff together with e_shoff = 0 is outside the statement (no shdr[0]) and skipped (counted)", "error kinds are not compared, only success/failure"],
        subs: vec![Sub::new("tables", oracle, 400, 30_000, 1_000_000).shrink(250)],
        extras: vec![crate::fuzz::c05_choice],
    }
}
