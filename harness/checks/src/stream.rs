//! Shared machinery of the stream-parser properties (C07, C08, C17): operation sequences over the
//! query vocabulary, reader behaviours, and execution against the instrumented reader.
use crate::common::*;
use crate::queries::{self, Q, QR};
use elf::section::SectionHeader;
use elf::segment::ProgramHeader;
use verif_model::io::Reader;

pub const SH_TYPES: [u32; 12] = [1, 2, 3, 4, 5, 6, 7, 8, 9, 11, 0x6ffffff6, 0x6fffffff];

/// Operation sequence: queries on the file's own headers plus fabricated headers whose (start,end) come
/// from a small pool of boundaries, so that different ranges share a start or an end and recur.
pub fn gen_ops(c: &mut Choice, nsec: usize, nseg: usize, len: usize, names: &[Vec<u8>], max_ops: usize) -> (Vec<Q>, bool) {
    // a minority of long histories over many distinct fabricated ranges (C07, C08)
    let long = max_ops >= 40 && c.chance(20);
    let n = if long { 60 + c.below(90) as usize } else { c.below(max_ops as u64 + 1) as usize };
    // (half of the long histories: windows of any size sliding over the file, so that the ranges touched add up to
    // many times the file's length; the others: ranges of at most 300 bytes)
    let wide = long && c.bool();
    let mut pool = [0u64; 5];
    for p in pool.iter_mut() {
        *p = match c.below(6) {
            0 => len as u64,
            1 => len as u64 + 1 + c.below(9),
            _ => c.below(len as u64 + 1),
        };
    }
    pool.sort();
    let mut fab_ranges: Vec<(u64, u64)> = vec![];
    let mut ops = vec![];
    for k in 0..n {
        if long && k + 6 < n && c.chance(215) {
            // a history that touches many DISTINCT byte ranges before the multi-range accessors are called
            let s0 = c.below(len as u64 + 1);
            let e0 = s0 + c.below((len as u64 - s0).min(if wide { u64::MAX } else { 300 }) + 1);
            ops.push(Q::FabSecData(SectionHeader { sh_name: 0, sh_type: 1, sh_flags: 0, sh_addr: 0, sh_offset: s0, sh_size: e0 - s0, sh_link: 0, sh_info: 0, sh_addralign: 1, sh_entsize: 0 }));
            continue;
        }
        let q = match c.below(22) {
            0 => Q::Counts,
            1 | 2 if nsec > 0 => Q::SecData(c.idx(nsec)),
            3 if nsec > 0 => Q::SecStrtab(c.idx(nsec)),
            4 if nsec > 0 => Q::SecRels(c.idx(nsec)),
            5 if nsec > 0 => Q::SecRelas(c.idx(nsec)),
            6 if nsec > 0 => Q::SecNotes(c.idx(nsec)),
            7 if nseg > 0 => Q::SegNotes(c.idx(nseg)),
            8 if nsec > 0 => Q::ShStrName(c.idx(nsec)),
            9 => Q::ByName(match c.below(6) {
                0 => ".dynsym".to_string(),
                1 => ".text".to_string(),
                2 => "".to_string(),
                3 => ".shstrtab".to_string(),
                4 => ".note.ABI-tag".to_string(),
                _ => ".nosuch".to_string(),
            }),
            10 => Q::Symtab,
            11 => Q::Dynsym,
            12 => Q::Dynamic,
            13 => Q::VerReq(c.below(names.len() as u64 + 2) as usize),
            14 => Q::VerDef(c.below(names.len() as u64 + 2) as usize),
            15 | 16 | 17 | 18 | 19 => {
                let a = c.idx(5);
                let b = c.idx(5);
                let (s, e) = (pool[a.min(b)], pool[a.max(b)]);
                fab_ranges.push((s, e));
                let h = SectionHeader { sh_name: 0, sh_type: *c.pick(&SH_TYPES), sh_flags: 0, sh_addr: 0, sh_offset: s, sh_size: e - s, sh_link: 0, sh_info: 0, sh_addralign: *c.pick(&[4u64, 8, 1, 0]), sh_entsize: 0 };
                match c.below(6) {
                    0 | 1 => Q::FabSecData(h),
                    2 => Q::FabSecStrtab(SectionHeader { sh_type: 3, ..h }),
                    3 => Q::FabSecNotes(SectionHeader { sh_type: 7, ..h }),
                    4 => {
                        if c.bool() {
                            Q::FabSecRels(SectionHeader { sh_type: 9, ..h })
                        } else {
                            Q::FabSecRelas(SectionHeader { sh_type: 4, ..h })
                        }
                    }
                    _ => Q::FabSegNotes(ProgramHeader { p_type: 4, p_offset: s, p_vaddr: 0, p_paddr: 0, p_filesz: e - s, p_memsz: 0, p_flags: 0, p_align: 4 }),
                }
            }
            _ => Q::Ehdr,
        };
        ops.push(q);
    }
    // interesting: two fabricated ranges that share exactly one endpoint, or a repeated range
    let mut interesting = false;
    for i in 0..fab_ranges.len() {
        for j in 0..i {
            let (a, b) = (fab_ranges[i], fab_ranges[j]);
            if a == b || ((a.0 == b.0) != (a.1 == b.1)) {
                interesting = true;
            }
        }
    }
    (ops, interesting)
}

/// Is the query-level comparison in scope for this op (the statement excludes SHF_COMPRESSED sections)?
pub fn in_scope<E: EndianParse>(f: &elf::ElfBytes<'_, E>, q: &Q) -> bool {
    let comp = |i: usize| f.section_headers().and_then(|t| t.get(i).ok()).map(|h| h.sh_flags & 0x800 != 0).unwrap_or(false);
    match q {
        Q::SecData(i) | Q::SecStrtab(i) | Q::SecRels(i) | Q::SecRelas(i) | Q::SecNotes(i) => !comp(*i),
        Q::FabSecData(h) | Q::FabSecStrtab(h) | Q::FabSecNotes(h) | Q::FabSecRels(h) | Q::FabSecRelas(h) => h.sh_flags & 0x800 == 0,
        Q::Dynamic => f.section_headers().map(|t| t.iter().find(|h| h.sh_type == 6).map(|h| h.sh_flags & 0x800 == 0).unwrap_or(true)).unwrap_or(true),
        _ => true,
    }
}

/// Queries for which success/failure must coincide exactly between the two parsers.
pub fn exact_coincidence(q: &Q) -> bool {
    matches!(q, Q::SecData(_) | Q::FabSecData(_) | Q::Symtab | Q::Dynsym | Q::VerReq(_) | Q::VerDef(_) | Q::SegNotes(_) | Q::FabSegNotes(_))
}

/// Initial cursor position of the reader handed to open_stream (0 in 70% of the cases).
pub fn gen_initial_pos(c: &mut Choice, len: usize) -> u64 {
    match c.below(10) {
        0 => 4,
        1 => 16,
        2 => c.below(len as u64 + 1),
        _ => 0,
    }
}

pub fn gen_reader_behaviour(c: &mut Choice, min_chunk: usize) -> (Vec<usize>, u64) {
    let chunks: Vec<usize> = match c.below(6) {
        0 | 1 => vec![],
        2 => vec![min_chunk.max(1)],
        3 => vec![min_chunk.max(1) + c.below(16) as usize],
        4 => (0..1 + c.below(4)).map(|_| min_chunk.max(1) + c.below(64) as usize).collect(),
        _ => vec![0, min_chunk.max(1) + c.below(7) as usize, 4096],
    };
    let interrupt_every = match c.below(4) {
        0 => 2 + c.below(5),
        _ => 0,
    };
    (chunks, interrupt_every)
}

/// Run the op sequence on a stream over `reader`. Returns None if the stream does not open.
pub fn run_ops<E: EndianParse>(e: E, reader: Reader, ops: &[Q]) -> Result<Vec<Option<QR>>, ParseError> {
    let mut s = open_stream_as(e, reader)?;
    Ok(ops.iter().map(|q| queries::eval_stream(&mut s, q)).collect())
}

/// By-name queries derived from the file's own section-name table, read with the independent reader: a section's
/// name, the name plus the bytes that follow it up to the second NUL (a query with an interior NUL that lines up with
/// two adjacent entries), a proper prefix, an extension. Only valid UTF-8 (the API takes &str).
pub fn file_name_queries(data: &[u8], c: &mut Choice, k: usize) -> Vec<Q> {
    use verif_model::{elfw, refs};
    let mut out = vec![];
    let Some((enc, eh)) = refs::read_ehdr(data) else { return out };
    if eh.e_shoff == 0 {
        return out;
    }
    let shs = elfw::shdr_size(enc);
    let rd = |i: u64| -> Option<elfw::Shdr> {
        let off = (eh.e_shoff as usize).checked_add((i as usize).checked_mul(shs)?)?;
        if off.checked_add(shs)? > data.len() {
            return None;
        }
        refs::read_shdr(enc, data, off)
    };
    let Some(s0) = rd(0) else { return out };
    let n = if eh.e_shnum == 0 { s0.sh_size } else { eh.e_shnum as u64 };
    let strndx = if eh.e_shstrndx == 0xffff { s0.sh_link as u64 } else { eh.e_shstrndx as u64 };
    if n == 0 || strndx >= n {
        return out;
    }
    let Some(st) = rd(strndx) else { return out };
    let Some(tab) = (st.sh_offset as usize).checked_add(st.sh_size as usize).and_then(|e| data.get(st.sh_offset as usize..e)) else { return out };
    for _ in 0..k {
        let Some(h) = rd(c.below(n.min(4096))) else { continue };
        let off = h.sh_name as usize;
        if off >= tab.len() {
            continue;
        }
        let Some(l1) = tab[off..].iter().position(|b| *b == 0) else { continue };
        let bytes: Vec<u8> = match c.below(4) {
            0 => tab[off..off + l1].to_vec(),
            1 => {
                // up to the second NUL
                let rest = &tab[off + l1 + 1..];
                match rest.iter().position(|b| *b == 0) {
                    Some(l2) => tab[off..off + l1 + 1 + l2].to_vec(),
                    None => continue,
                }
            }
            2 => tab[off..off + l1.saturating_sub(1)].to_vec(),
            _ => {
                let mut v = tab[off..off + l1].to_vec();
                v.push(b'x');
                v
            }
        };
        if let Ok(sname) = String::from_utf8(bytes) {
            out.push(Q::ByName(sname));
        }
    }
    out
}
