//! C01 (slice parser is total) and C06(i) (zero heap allocations), sharing the API walker.
use crate::common::*;
use crate::walk::{self, WalkStats};
use verif_model::alloc;
use verif_model::inputs::{self, InputOpts};

pub fn labels(st: &WalkStats, obs: &mut Obs) {
    for (f, name) in walk::FLAG_NAMES {
        if st.flags & f != 0 {
            obs.label(name);
        }
    }
}

/// raw mode (libFuzzer seeds are sample objects): [n][n walker-argument bytes][the ELF file]
pub fn split_raw(case: &[u8]) -> (&[u8], &[u8]) {
    match case.split_first() {
        None => (&[], &[]),
        Some((n, rest)) => {
            let k = (*n as usize).min(rest.len());
            (&rest[..k], &rest[k..])
        }
    }
}

fn run(case: &[u8], obs: &mut Obs, count_allocs: bool) -> Result<(), String> {
    let mut c = Choice::new(case);
    let inp = inputs::gen_input(&mut c, &InputOpts::default());
    // the rest of the choice sequence drives the walker's arguments
    let args = c.rest();
    run_on(&inp.data, args, inp.mode, &inp.note, obs, count_allocs)
}

fn run_raw(case: &[u8], obs: &mut Obs, count_allocs: bool) -> Result<(), String> {
    let (args, data) = split_raw(case);
    run_on(data, args, "raw_file", "", obs, count_allocs)
}

fn run_on(data: &[u8], args: &[u8], mode: &'static str, note: &str, obs: &mut Obs, count_allocs: bool) -> Result<(), String> {
    let mut wc = Choice::new(args);
    let mut st = WalkStats::new(1500);
    if count_allocs {
        alloc::open();
        let r = guard(|| walk::walk(data, &mut wc, &mut st));
        let a = alloc::close();
        r.map_err(|p| format!("crate panicked during the walk of a {}-byte {} input: {}", data.len(), mode, p))?;
        if a.count != 0 {
            return Err(format!("{} heap allocation(s) (largest {} bytes, {} bytes in total) during the slice-parser walk of a {}-byte {} input ({}); opened={}", a.count, a.max_request, a.total, data.len(), mode, note, st.flags & walk::F_OPENED != 0));
        }
    } else {
        guard(|| walk::walk(data, &mut wc, &mut st)).map_err(|p| format!("panic during the walk of a {}-byte {} input ({}): {}", data.len(), mode, note, p))?;
    }
    labels(&st, obs);
    obs.label(mode);
    obs.count("api_calls", st.calls);
    obs.count("iterator_items", st.items);
    if st.flags & (walk::F_OPENED | walk::F_DEEP_STANDALONE) != 0 {
        obs.nontrivial();
    }
    obs.key = fnv64(data) ^ fnv64(args).rotate_left(21);
    obs.describe(|| json!({"mode": mode, "input_len": data.len(), "note": note, "input_prefix_hex": hex(&data[..data.len().min(64)]), "walker_arg_bytes": args.len(), "api_calls": st.calls, "iterator_items": st.items, "reached": walk::FLAG_NAMES.iter().filter(|(f, _)| st.flags & f != 0).map(|(_, n)| *n).collect::<Vec<_>>()}));
    Ok(())
}

pub fn oracle_total(case: &[u8], obs: &mut Obs) -> Result<(), String> {
    run(case, obs, false)
}
pub fn oracle_noalloc(case: &[u8], obs: &mut Obs) -> Result<(), String> {
    run(case, obs, true)
}
pub fn oracle_total_raw(case: &[u8], obs: &mut Obs) -> Result<(), String> {
    run_raw(case, obs, false)
}
pub fn oracle_noalloc_raw(case: &[u8], obs: &mut Obs) -> Result<(), String> {
    run_raw(case, obs, true)
}

/// ident buffers of every length: plain encoding = the buffer itself
fn oracle_ident(case: &[u8], obs: &mut Obs) -> Result<(), String> {
    let r = guard(|| {
        let a = elf::file::parse_ident::<AnyEndian>(case).is_ok();
        let b = elf::file::parse_ident::<LittleEndian>(case).is_ok();
        let c = elf::file::parse_ident::<BigEndian>(case).is_ok();
        (a, b, c)
    });
    match r {
        // totality only: whether a short buffer is refused or answered is not C01's business (C18 relates the
        // answers on prefixes to the answer on the complete ident)
        Ok((a, _, _)) => obs.label_if(a, "ident_accepted"),
        Err(p) => obs.known_or_fail("c01.parse_ident_short_buffer", format!("elf::file::parse_ident panicked on the {}-byte buffer {}: {}", case.len(), hex(case), p))?,
    }
    if case.len() >= 4 {
        obs.nontrivial();
    }
    obs.label_if(case.len() < 16, "shorter_than_16");
    obs.describe(|| json!({"ident_buffer_hex": hex(case)}));
    Ok(())
}

fn enum_ident(shard: usize, nshards: usize, _t: Tier, emit: &mut dyn FnMut(&[u8]) -> bool) {
    let full: [u8; 20] = [0x7f, b'E', b'L', b'F', 2, 1, 1, 0, 0, 0, 0, 0, 0, 0, 0, 0, 1, 2, 3, 4];
    let mut n = 0;
    for len in 0..=20usize {
        for variant in 0..6 {
            n += 1;
            if n % nshards != shard {
                continue;
            }
            let mut b = full[..len].to_vec();
            match variant {
                1 => b.iter_mut().for_each(|x| *x = 0),
                2 if len > 4 => b[4] = 1,
                3 if len > 5 => b[5] = 2,
                4 if len > 6 => b[6] = 0,
                5 if len > 0 => b[len - 1] ^= 0xff,
                _ => {}
            }
            if !emit(&b) {
                return;
            }
        }
    }
}

pub fn property() -> Property {
    Property {
        id: "C01",
        level: "exploration",
        rule: "cases are (input bytes, walker arguments): inputs come from three modes - structured rich files (every section kind wired by sh_link/sh_info, segments, random layout) with 0..3 header-field overrides from the boundary table {0,1,..,2^31,2^32-1,2^63,2^64-1,file_len-1,file_len,file_len+1,own value+-1} and byte/word corruption of section bodies; linker-produced sample objects with 0..4 field overrides located by an independent reader, byte flips, word edits, splices, truncations; raw bytes with an optional valid ident/header prefix. The allocation-free walker then calls every public entry point of the no_std core (open under all specs, every ElfBytes accessor on the file's own and on fabricated headers, every lazy table at indices {0,1,len-1,len,len+1,usize::MAX/entsize..,usize::MAX}, string tables, notes, both hash lookups, symbol-version queries, and all stand-alone parsers/constructors on arbitrary sub-slices with offsets up to usize::MAX, alignments 0..2^64-1, counts up to u64::MAX; parse_ident on every buffer length 0..20; the provided Iterator methods size_hint/nth/skip/step_by/count/last on every iterator type, also after exhaustion; Debug of every public type; hash lookups with names that saturate the running hash; a GnuHashTable whose public `hdr` field the caller has overwritten) with overflow checks and debug assertions on. Oracle: no panic. Non-trivial: the input opened, or a stand-alone parser got past input validation; distinct by (input, args) hash. ident: exhaustive over buffer lengths 0..20 x 6 content variants.",
        assumptions: &["64-bit host (usize = 64 bits)", "aborts (stack overflow, OOM) would kill the checker and surface as exit 2, not as a pass"],
        subs: vec![Sub::enumerated("ident", oracle_ident, enum_ident, true), Sub::new("total", oracle_total, 3000, 250_000, 8_000_000).shrink(3000), Sub::new("total_raw", oracle_total_raw, 600, 20_000, 200_000).shrink(3000)],
        extras: vec![crate::fuzz::c01_campaign],
    }
}
