//! C08 — the stream parser's memory and I/O are bounded by the stream, not by header claims.
use crate::common::*;
use crate::queries::{self, Q};
use crate::stream;
use verif_model::alloc;
use verif_model::filegen;
use verif_model::inputs::{self, InputOpts};
use verif_model::io::{self, Reader};
use verif_model::refs;

fn clip(r: (u64, u64), len: u64) -> (u64, u64) {
    (r.0.min(len), r.1.min(len))
}

/// Byte ranges `open_stream` may read: ident, header tail, shdr[0] when extended numbering needs it, and
/// the two header tables — computed from the bytes by the independent reader.
fn open_allowed(data: &[u8]) -> Vec<(u64, u64)> {
    let len = data.len() as u64;
    let mut v = vec![(0u64, 16u64.min(len))];
    let Some((e, eh)) = refs::read_ehdr(data) else {
        // header unreadable for the independent reader (short or foreign): ident and at most the tail
        v.push((0, 64u64.min(len)));
        return v;
    };
    v.push((16, (elfw::ehdr_size(e) as u64).min(len)));
    let shs = elfw::shdr_size(e) as u64;
    let phs = elfw::phdr_size(e) as u64;
    let shdr0 = if eh.e_shoff.checked_add(shs).map(|x| x <= len).unwrap_or(false) { refs::read_shdr(e, data, eh.e_shoff as usize) } else { None };
    if eh.e_shoff != 0 {
        if eh.e_shnum == 0 || eh.e_phnum == 0xffff {
            v.push(clip((eh.e_shoff, eh.e_shoff.saturating_add(shs)), len));
        }
        let n = if eh.e_shnum == 0 { shdr0.map(|h| h.sh_size).unwrap_or(0) } else { eh.e_shnum as u64 };
        if let Some(end) = shs.checked_mul(n).and_then(|s| eh.e_shoff.checked_add(s)) {
            v.push(clip((eh.e_shoff, end), len));
        }
    } else if eh.e_phnum == 0xffff {
        // outside the statement (no shdr[0]); the parsers read a "section header" at offset 0
        v.push((0, shs.min(len)));
    }
    if eh.e_phoff != 0 {
        let n = if eh.e_phnum == 0xffff { shdr0.map(|h| h.sh_info as u64).unwrap_or(0) } else { eh.e_phnum as u64 };
        if let Some(end) = phs.checked_mul(n).and_then(|s| eh.e_phoff.checked_add(s)) {
            v.push(clip((eh.e_phoff, end), len));
        }
    }
    v
}

fn sec_range(h: &elf::section::SectionHeader) -> Option<(u64, u64)> {
    Some((h.sh_offset, h.sh_offset.checked_add(h.sh_size)?))
}

/// Byte ranges a query designates according to the (stream's own, already verified by C07) headers.
fn op_allowed<E: EndianParse, S: std::io::Read + std::io::Seek>(f: &elf::ElfStream<E, S>, q: &Q) -> Vec<(u64, u64)> {
    let sh = f.section_headers();
    let ph = f.segments();
    let mut v: Vec<(u64, u64)> = vec![];
    let mut push_sec = |v: &mut Vec<(u64, u64)>, i: usize| {
        if let Some(r) = sh.get(i).and_then(sec_range) {
            v.push(r)
        }
    };
    match q {
        Q::Ehdr | Q::Counts | Q::Shdr(_) | Q::Phdr(_) | Q::SegData(_) | Q::SysvFind(_) | Q::GnuFind(_) | Q::CommonDynamic => {}
        Q::SecData(i) | Q::SecStrtab(i) | Q::SecRels(i) | Q::SecRelas(i) | Q::SecNotes(i) => push_sec(&mut v, *i),
        Q::FabSecData(h) | Q::FabSecStrtab(h) | Q::FabSecNotes(h) | Q::FabSecRels(h) | Q::FabSecRelas(h) => {
            if let Some(r) = sec_range(h) {
                v.push(r)
            }
        }
        Q::SegNotes(i) => {
            if let Some(p) = ph.get(*i) {
                if let Some(e) = p.p_offset.checked_add(p.p_filesz) {
                    v.push((p.p_offset, e))
                }
            }
        }
        Q::FabSegNotes(p) => {
            if let Some(e) = p.p_offset.checked_add(p.p_filesz) {
                v.push((p.p_offset, e))
            }
        }
        Q::ShStrName(_) | Q::ByName(_) => {
            let idx = match f.ehdr.e_shstrndx {
                0xffff => sh.first().map(|h| h.sh_link as usize).unwrap_or(usize::MAX),
                x => x as usize,
            };
            push_sec(&mut v, idx);
        }
        Q::Symtab | Q::Dynsym => {
            let ty = if matches!(q, Q::Symtab) { 2 } else { 11 };
            if let Some(h) = sh.iter().find(|h| h.sh_type == ty) {
                if let Some(r) = sec_range(h) {
                    v.push(r)
                }
                push_sec(&mut v, h.sh_link as usize);
            }
        }
        Q::Dynamic => {
            // the dynamic table is designated by the SHT_DYNAMIC section and by the PT_DYNAMIC segment; WHICH of the two
            // the lookup prefers is not C08's business (C07 compares the answer with the slice parser's)
            if let Some(r) = sh.iter().find(|h| h.sh_type == 6).and_then(sec_range) {
                v.push(r)
            }
            if let Some(p) = ph.iter().find(|p| p.p_type == 2) {
                if let Some(e) = p.p_offset.checked_add(p.p_filesz) {
                    v.push((p.p_offset, e))
                }
            }
        }
        Q::VerReq(_) | Q::VerDef(_) => {
            // no .gnu.version section: the query answers None and designates nothing; otherwise every section
            // of the three version types and the string tables they link to
            if !sh.iter().any(|h| h.sh_type == 0x6fff_ffff) {
                return v;
            }
            for h in sh.iter().filter(|h| matches!(h.sh_type, 0x6fff_fffd | 0x6fff_fffe | 0x6fff_ffff)) {
                if let Some(r) = sec_range(h) {
                    v.push(r)
                }
                if h.sh_type != 0x6fff_ffff {
                    push_sec(&mut v, h.sh_link as usize);
                }
            }
        }
    }
    v
}

pub fn oracle(case: &[u8], obs: &mut Obs) -> Result<(), String> {
    let mut c = Choice::new(case);
    let mut o = InputOpts::default();
    o.weights = [70, 20, 10];
    o.rich.override_chance = 200;
    let big_pad = c.chance(40);
    o.rich.max_gap = if big_pad { 1 << 20 } else { 64 };
    let inp = inputs::gen_input(&mut c, &o);
    let names: Vec<Vec<u8>> = inp.rich.as_ref().map(|r| r.dyn_names.clone()).unwrap_or_default();
    check(&inp.data, inp.mode, &inp.note, big_pad, &names, &mut c, obs)
}

/// raw mode: [n][n bytes driving reader behaviour and the op sequence][the ELF file]
pub fn oracle_raw(case: &[u8], obs: &mut Obs) -> Result<(), String> {
    let (args, data) = crate::c01::split_raw(case);
    let mut c = Choice::new(args);
    check(data, "raw_file", "", false, &[b"memset".to_vec()], &mut c, obs)
}

fn check(data_in: &[u8], mode: &'static str, note: &str, big_pad: bool, names: &[Vec<u8>], c: &mut Choice, obs: &mut Obs) -> Result<(), String> {
    let data = &data_in.to_vec();
    let mut c = c.clone();
    struct Inp<'a> {
        mode: &'static str,
        note: &'a str,
    }
    let inp = Inp { mode, note };
    let names: Vec<Vec<u8>> = names.to_vec();
    let len = data.len() as u64;
    let limit = 8 * data.len() + 4096;
    let (chunks, intr) = stream::gen_reader_behaviour(&mut c, 64);
    let ctx = format!("{}-byte {} input ({})", data.len(), inp.mode, inp.note);
    // does the file claim a size above the allocation bound?
    let claims_big = refs::read_ehdr(data)
        .map(|(e, eh)| {
            let mut big = (eh.e_shnum as u64 * elfw::shdr_size(e) as u64) > limit as u64 || (eh.e_phnum as u64 * elfw::phdr_size(e) as u64) > limit as u64;
            if eh.e_shoff != 0 && eh.e_shnum != 0 {
                for i in 0..(eh.e_shnum as usize).min(64) {
                    if let Some(h) = (eh.e_shoff as usize).checked_add(i * elfw::shdr_size(e)).and_then(|o| refs::read_shdr(e, data, o)) {
                        if h.sh_size > limit as u64 && h.sh_type != 8 {
                            big = true;
                        }
                    }
                }
            }
            big
        })
        .unwrap_or(false);
    let pos0 = stream::gen_initial_pos(&mut c, data.len());
    // a fifth of the cases: one transient hard I/O error somewhere; laziness and the allocation bound hold regardless
    let faults = if c.u8() >= 205 { vec![io::Fault { at: 4 + c.below(60), kind: io::FaultKind::Error, permanent: false, ekind: c.below(8) as u8 }] } else { vec![] };
    let mut reader = Reader::with(data.clone(), chunks.clone(), intr, faults).at_position(pos0);
    // one case in 16: a stream that cannot seek relative to its end, so that its length cannot be asked for
    let b = c.u8();
    if b >= 240 {
        reader = reader.without_seek_end(b & 7);
        obs.label("stream_without_seek_end");
    }
    alloc::open();
    let rs = guard(|| open_stream_as(AnyEndian::Little, reader.clone()));
    let a = alloc::close();
    let rs = rs.map_err(|p| format!("{}: open_stream panicked: {}", ctx, p))?;
    if a.max_request > limit {
        return Err(format!("{}: open_stream made a single allocation of {} bytes; the bound is 8*len+4096 = {}", ctx, a.max_request, limit));
    }
    let log = reader.take_log();
    let ranges = io::read_ranges(&log);
    if let Err((s, e)) = io::covered(&ranges, &open_allowed(data)) {
        return Err(format!("{}: open_stream read bytes [{}, {}) which are not part of the ident, the header, shdr[0] or the two header tables (allowed: {:?})", ctx, s, e, open_allowed(data)));
    }
    obs.label_if(claims_big, "claims_above_bound");
    obs.label_if(big_pad && data.len() > 65536, "huge_padding");
    let mut fs = match rs {
        Ok(f) => f,
        Err(_) => {
            obs.label("rejected_at_open");
            if claims_big {
                obs.nontrivial();
            }
            obs.key = fnv64(&data[..data.len().min(8192)]) ^ len;
            obs.describe(|| json!({"input": ctx, "opened": false, "claims_above_bound": claims_big}));
            return Ok(());
        }
    };
    let nsec = fs.section_headers().len();
    let nseg = fs.segments().len();
    let (ops, _) = stream::gen_ops(&mut c, nsec, nseg, data.len(), &names, 40);
    let mut max_alloc = a.max_request;
    let mut undesignated_total = 0u64;
    for (k, q) in ops.iter().enumerate() {
        let allowed: Vec<(u64, u64)> = op_allowed(&fs, q).into_iter().map(|r| clip(r, len)).collect();
        alloc::open();
        let r = guard(|| queries::eval_stream(&mut fs, q));
        let a = alloc::close();
        r.map_err(|p| format!("{}: op #{} {:?} panicked: {}", ctx, k, q, p))?;
        max_alloc = max_alloc.max(a.max_request);
        // the cache's own table holds one entry per distinct range the CALLER asked for; that bookkeeping is
        // not driven by header claims and is allowed 64 bytes per call made so far on top of the bound
        let limit_k = limit + 64 * (k + 1);
        if a.max_request > limit_k {
            return Err(format!("{}: op #{} {:?} made a single allocation of {} bytes; the bound is 8*len+4096 (+64 per call made) = {}", ctx, k, q, a.max_request, limit_k));
        }
        let log = reader.take_log();
        let ranges = io::read_ranges(&log);
        if let Err((s, e)) = io::covered(&ranges, &allowed) {
            return Err(format!("{}: op #{} {:?} read bytes [{}, {}) outside the ranges the query designates {:?}", ctx, k, q, s, e, allowed));
        }
        let des: u64 = allowed.iter().map(|(s, e)| e - s).sum();
        undesignated_total = undesignated_total.max(len.saturating_sub(des));
    }
    obs.count("ops_monitored", ops.len() as u64);
    obs.label("opened");
    obs.label(inp.mode);
    if claims_big || (big_pad && data.len() > 65536 && !ops.is_empty()) {
        obs.nontrivial();
    }
    obs.key = fnv64(&data[..data.len().min(8192)]) ^ len ^ fnv64(format!("{:?}", ops).as_bytes()).rotate_left(13);
    obs.describe(|| json!({"input": ctx, "opened": true, "claims_above_bound": claims_big, "ops": ops.iter().map(|q| format!("{:?}", q)).collect::<Vec<_>>(), "largest_single_allocation": max_alloc, "bound": limit}));
    let _ = filegen::SHDR_FIELDS;
    Ok(())
}

pub fn property() -> Property {
    Property {
        id: "C08",
        level: "exploration",
        rule: "cases are stream contents (rich generated files where 78% carry 1..3 header-field overrides from the boundary table {0,1,..,2^31,2^32-1,2^63,2^64-1,len-1,len,len+1,...} so that small files claim huge sizes/counts/offsets, 16% laid out with up to 1 MiB of padding between small tables; mutated linker-produced samples; raw bytes) x an operation sequence of 0..40 (8%: 60..150) stream calls (as C07, incl. fabricated headers with boundary ranges) x chunking/interrupting readers with the cursor initially at 0 or elsewhere (a fifth failing once with a transient hard error). Monitors: (1) no panic; (2) a counting global allocator with a per-thread window around open_stream and around every call: every single allocation request <= 8*stream_len + 4096 bytes (+64 bytes per call made so far: the cache's own table holds one entry per distinct range the caller asked for) (requests above 1 GiB park the thread and fail the case); (3) an instrumented Read+Seek logs every byte range delivered: during open_stream the union must lie inside {ident, header tail, shdr[0] when extended numbering needs it, the two header tables}, computed from the bytes by an independent reader; during each later call inside the ranges that call designates according to the headers (section range, linked string table, version sections - nothing at all when the file has no .gnu.version section -, segment range); re-reading a designated range is allowed. Non-trivial: the file claims a size above the bound, or has >64 KiB of padding and at least one call was monitored; distinct by (file, ops) hash.",
        assumptions: &["the legitimate maximum allocation derived from the code is about 3.5 x stream length (a Vec<ProgramHeader> grown by doubling for an ELF32 table); 8x + 4 KiB leaves margin", "the allocator window also counts the harness's own small allocations made while digesting results"],
        subs: vec![Sub::new("bounded", oracle, 3000, 300_000, 10_000_000).shrink(1500), Sub::new("bounded_raw", oracle_raw, 600, 20_000, 200_000).shrink(1500)],
        extras: vec![crate::fuzz::c08_campaign],
    }
}
