//! A fixed query vocabulary over an opened file, evaluated to `Result<digest, ()>` through the slice
//! parser and through the stream parser. Digests cover content only (never pointers or the spec type),
//! so results are comparable across parsers, byte-order specs, prefixes and extensions of a file.
use crate::common::*;
use elf::note::Note;
use elf::section::SectionHeader;
use elf::segment::ProgramHeader;
use elf::{ElfBytes, ElfStream};
use std::io::{Read, Seek};

#[derive(Clone, Debug, PartialEq, Eq)]
pub enum Q {
    Ehdr,
    Counts,
    Shdr(usize),
    Phdr(usize),
    SecData(usize),
    SecStrtab(usize),
    SecRels(usize),
    SecRelas(usize),
    SecNotes(usize),
    SegData(usize),
    SegNotes(usize),
    ShStrName(usize),
    ByName(String),
    Symtab,
    Dynsym,
    Dynamic,
    /// find_common_data().dynamic (slice parser only)
    CommonDynamic,
    SysvFind(Vec<u8>),
    GnuFind(Vec<u8>),
    VerReq(usize),
    VerDef(usize),
    /// a fabricated section header handed to section_data / typed views
    FabSecData(SectionHeader),
    FabSecStrtab(SectionHeader),
    FabSecNotes(SectionHeader),
    FabSecRels(SectionHeader),
    FabSecRelas(SectionHeader),
    FabSegNotes(ProgramHeader),
}

pub type QR = Result<u64, ()>;

#[derive(Default)]
pub struct Dg(pub u64);
impl Dg {
    pub fn new() -> Dg {
        Dg(0xcbf2_9ce4_8422_2325)
    }
    pub fn u(&mut self, v: u64) {
        for b in v.to_le_bytes() {
            self.0 ^= b as u64;
            self.0 = self.0.wrapping_mul(0x0000_0100_0000_01b3);
        }
    }
    pub fn b(&mut self, s: &[u8]) {
        self.u(s.len() as u64);
        for x in s {
            self.0 ^= *x as u64;
            self.0 = self.0.wrapping_mul(0x0000_0100_0000_01b3);
        }
    }
}

fn dg_shdr(d: &mut Dg, h: &SectionHeader) {
    for v in [h.sh_name as u64, h.sh_type as u64, h.sh_flags, h.sh_addr, h.sh_offset, h.sh_size, h.sh_link as u64, h.sh_info as u64, h.sh_addralign, h.sh_entsize] {
        d.u(v)
    }
}
fn dg_phdr(d: &mut Dg, h: &ProgramHeader) {
    for v in [h.p_type as u64, h.p_offset, h.p_vaddr, h.p_paddr, h.p_filesz, h.p_memsz, h.p_flags as u64, h.p_align] {
        d.u(v)
    }
}
fn dg_ehdr<E: EndianParse>(d: &mut Dg, h: &elf::file::FileHeader<E>) {
    d.u((h.class == Class::ELF64) as u64);
    d.u(h.endianness.is_little() as u64);
    d.u(h.endianness.is_big() as u64);
    for v in [h.version as u64, h.osabi as u64, h.abiversion as u64, h.e_type as u64, h.e_machine as u64, h.e_entry, h.e_phoff, h.e_shoff, h.e_flags as u64, h.e_ehsize as u64, h.e_phentsize as u64, h.e_phnum as u64, h.e_shentsize as u64, h.e_shnum as u64, h.e_shstrndx as u64] {
        d.u(v)
    }
}
fn dg_sym(d: &mut Dg, s: &elf::symbol::Symbol) {
    for v in [s.st_name as u64, s.st_shndx as u64, s.st_info as u64, s.st_other as u64, s.st_value, s.st_size] {
        d.u(v)
    }
}
const ITEM_CAP: usize = 100_000;

fn dg_notes<'a, E: EndianParse>(d: &mut Dg, it: elf::note::NoteIterator<'a, E>) {
    for (k, n) in it.enumerate() {
        match n {
            Note::GnuAbiTag(t) => {
                d.u(1);
                for v in [t.os, t.major, t.minor, t.subminor] {
                    d.u(v as u64)
                }
            }
            Note::GnuBuildId(b) => {
                d.u(2);
                d.b(b.0)
            }
            Note::Unknown(a) => {
                d.u(3);
                d.u(a.n_type);
                d.b(a.name);
                d.b(a.desc);
            }
        }
        if k > ITEM_CAP {
            break;
        }
    }
}

fn dg_symtab<E: EndianParse>(d: &mut Dg, t: &elf::symbol::SymbolTable<'_, E>, s: &elf::string_table::StringTable<'_>) {
    d.u(t.len() as u64);
    for (k, y) in t.iter().enumerate() {
        dg_sym(d, &y);
        match s.get_raw(y.st_name as usize) {
            Ok(n) => d.b(n),
            Err(_) => d.u(0xEEEE),
        }
        if k > ITEM_CAP {
            break;
        }
    }
    // the string table at a few fixed offsets
    for off in [0usize, 1, 2, 5, 9, 17, 33] {
        match s.get_raw(off) {
            Ok(n) => d.b(n),
            Err(_) => d.u(0xEEEF),
        }
    }
}

fn dg_strtab(d: &mut Dg, s: &elf::string_table::StringTable<'_>, size_hint: u64) {
    let mut off = 0usize;
    let mut k = 0;
    // every string of the table, walking NUL to NUL (bounded), then a few fixed offsets
    while (off as u64) < size_hint && k < 200 {
        match s.get_raw(off) {
            Ok(n) => {
                d.b(n);
                off += n.len() + 1;
            }
            Err(_) => {
                d.u(0xEEEE);
                break;
            }
        }
        k += 1;
    }
    for off in [1usize, 3, 7] {
        match s.get(off) {
            Ok(n) => d.b(n.as_bytes()),
            Err(_) => d.u(0xEEEF),
        }
    }
}

fn dg_version<E: EndianParse>(t: &elf::gnu_symver::SymbolVersionTable<'_, E>, q: &Q) -> QR {
    let mut d = Dg::new();
    match q {
        Q::VerReq(i) => match t.get_requirement(*i).map_err(|_| ())? {
            Some(r) => {
                d.u(1);
                d.b(r.file.as_bytes());
                d.b(r.name.as_bytes());
                d.u(r.hash as u64);
                d.u(r.flags as u64);
                d.u(r.hidden as u64);
            }
            None => d.u(0),
        },
        Q::VerDef(i) => match t.get_definition(*i).map_err(|_| ())? {
            Some(x) => {
                d.u(1);
                d.u(x.hash as u64);
                d.u(x.flags as u64);
                d.u(x.hidden as u64);
                for (k, n) in x.names.enumerate() {
                    match n {
                        Ok(s) => d.b(s.as_bytes()),
                        Err(_) => d.u(0xEEEE),
                    }
                    if k > 1000 {
                        break;
                    }
                }
            }
            None => d.u(0),
        },
        _ => {}
    }
    Ok(d.0)
}

/// Plan: the list of queries for a file, derived from the opened (whole) file and the given names.
pub fn plan<E: EndianParse>(f: &ElfBytes<'_, E>, names: &[Vec<u8>], max_sec: usize) -> Vec<Q> {
    let mut v = vec![Q::Ehdr, Q::Counts];
    let nsec = f.section_headers().map(|t| t.len()).unwrap_or(0).min(max_sec);
    let nseg = f.segments().map(|t| t.len()).unwrap_or(0).min(max_sec);
    for i in 0..nsec {
        v.push(Q::Shdr(i));
        v.push(Q::SecData(i));
        v.push(Q::SecStrtab(i));
        v.push(Q::SecRels(i));
        v.push(Q::SecRelas(i));
        v.push(Q::SecNotes(i));
        v.push(Q::ShStrName(i));
    }
    for i in 0..nseg {
        v.push(Q::Phdr(i));
        v.push(Q::SegData(i));
        v.push(Q::SegNotes(i));
    }
    for n in [".dynsym", ".text", "", ".shstrtab", ".note.ABI-tag", ".nosuch"] {
        v.push(Q::ByName(n.to_string()));
    }
    v.push(Q::Symtab);
    v.push(Q::Dynsym);
    v.push(Q::Dynamic);
    v.push(Q::CommonDynamic);
    for n in names.iter().take(12) {
        v.push(Q::SysvFind(n.clone()));
        v.push(Q::GnuFind(n.clone()));
    }
    v.push(Q::SysvFind(b"absent_name".to_vec()));
    v.push(Q::GnuFind(b"absent_name".to_vec()));
    for i in 0..names.len().min(10) + 1 {
        v.push(Q::VerReq(i));
        v.push(Q::VerDef(i));
    }
    v
}

pub fn eval_bytes<E: EndianParse>(f: &ElfBytes<'_, E>, q: &Q) -> QR {
    let mut d = Dg::new();
    let shdr = |i: usize| -> Result<SectionHeader, ()> { f.section_headers().ok_or(())?.get(i).map_err(|_| ()) };
    let phdr = |i: usize| -> Result<ProgramHeader, ()> { f.segments().ok_or(())?.get(i).map_err(|_| ()) };
    let sec_data = |d: &mut Dg, h: &SectionHeader| -> Result<(), ()> {
        let (b, ch) = f.section_data(h).map_err(|_| ())?;
        d.b(b);
        if let Some(c) = ch {
            d.u(c.ch_type as u64);
            d.u(c.ch_size);
            d.u(c.ch_addralign);
        }
        Ok(())
    };
    match q {
        Q::Ehdr => dg_ehdr(&mut d, &f.ehdr),
        Q::Counts => {
            // element counts only: the stream parser does not distinguish "absent" from "empty"
            d.u(f.section_headers().map(|t| t.len() as u64).unwrap_or(0));
            d.u(f.segments().map(|t| t.len() as u64).unwrap_or(0));
        }
        Q::Shdr(i) => dg_shdr(&mut d, &shdr(*i)?),
        Q::Phdr(i) => dg_phdr(&mut d, &phdr(*i)?),
        Q::SecData(i) => sec_data(&mut d, &shdr(*i)?)?,
        Q::FabSecData(h) => sec_data(&mut d, h)?,
        Q::SecStrtab(i) => {
            let h = shdr(*i)?;
            dg_strtab(&mut d, &f.section_data_as_strtab(&h).map_err(|_| ())?, h.sh_size)
        }
        Q::FabSecStrtab(h) => dg_strtab(&mut d, &f.section_data_as_strtab(h).map_err(|_| ())?, h.sh_size),
        Q::SecRels(_) | Q::FabSecRels(_) => {
            let h = match q {
                Q::SecRels(i) => shdr(*i)?,
                Q::FabSecRels(h) => *h,
                _ => unreachable!(),
            };
            for (k, r) in f.section_data_as_rels(&h).map_err(|_| ())?.enumerate() {
                d.u(r.r_offset);
                d.u(r.r_sym as u64);
                d.u(r.r_type as u64);
                if k > ITEM_CAP {
                    break;
                }
            }
        }
        Q::SecRelas(_) | Q::FabSecRelas(_) => {
            let h = match q {
                Q::SecRelas(i) => shdr(*i)?,
                Q::FabSecRelas(h) => *h,
                _ => unreachable!(),
            };
            for (k, r) in f.section_data_as_relas(&h).map_err(|_| ())?.enumerate() {
                d.u(r.r_offset);
                d.u(r.r_sym as u64);
                d.u(r.r_type as u64);
                d.u(r.r_addend as u64);
                if k > ITEM_CAP {
                    break;
                }
            }
        }
        Q::SecNotes(i) => dg_notes(&mut d, f.section_data_as_notes(&shdr(*i)?).map_err(|_| ())?),
        Q::FabSecNotes(h) => dg_notes(&mut d, f.section_data_as_notes(h).map_err(|_| ())?),
        Q::SegData(i) => d.b(f.segment_data(&phdr(*i)?).map_err(|_| ())?),
        Q::SegNotes(i) => dg_notes(&mut d, f.segment_data_as_notes(&phdr(*i)?).map_err(|_| ())?),
        Q::FabSegNotes(p) => dg_notes(&mut d, f.segment_data_as_notes(p).map_err(|_| ())?),
        Q::ShStrName(i) => {
            let (sh, st) = f.section_headers_with_strtab().map_err(|_| ())?;
            match (sh, st) {
                (Some(sh), Some(st)) => {
                    let h = sh.get(*i).map_err(|_| ())?;
                    d.b(st.get_raw(h.sh_name as usize).map_err(|_| ())?);
                }
                (sh, st) => {
                    d.u(sh.is_some() as u64);
                    d.u(st.is_some() as u64)
                }
            }
        }
        Q::ByName(n) => match f.section_header_by_name(n).map_err(|_| ())? {
            Some(h) => dg_shdr(&mut d, &h),
            None => d.u(0),
        },
        Q::Symtab => match f.symbol_table().map_err(|_| ())? {
            Some((t, s)) => dg_symtab(&mut d, &t, &s),
            None => d.u(0),
        },
        Q::Dynsym => match f.dynamic_symbol_table().map_err(|_| ())? {
            Some((t, s)) => dg_symtab(&mut d, &t, &s),
            None => d.u(0),
        },
        Q::Dynamic => match f.dynamic().map_err(|_| ())? {
            Some(t) => {
                d.u(t.len() as u64);
                for (k, x) in t.iter().enumerate() {
                    d.u(x.d_tag as u64);
                    d.u(x.d_val());
                    if k > ITEM_CAP {
                        break;
                    }
                }
            }
            None => d.u(0),
        },
        Q::CommonDynamic => match f.find_common_data().map_err(|_| ())?.dynamic {
            Some(t) => {
                d.u(t.len() as u64);
                for (k, x) in t.iter().enumerate() {
                    d.u(x.d_tag as u64);
                    d.u(x.d_val());
                    if k > ITEM_CAP {
                        break;
                    }
                }
            }
            None => d.u(0),
        },
        Q::SysvFind(n) | Q::GnuFind(n) => {
            let cd = f.find_common_data().map_err(|_| ())?;
            let (Some(syms), Some(strs)) = (cd.dynsyms, cd.dynsyms_strs) else {
                d.u(0xAAAA);
                return Ok(d.0);
            };
            let r = match q {
                Q::SysvFind(_) => match &cd.sysv_hash {
                    Some(h) => h.find(n, &syms, &strs).map_err(|_| ())?,
                    None => {
                        d.u(0xBBBB);
                        return Ok(d.0);
                    }
                },
                _ => match &cd.gnu_hash {
                    Some(h) => h.find(n, &syms, &strs).map_err(|_| ())?,
                    None => {
                        d.u(0xBBBB);
                        return Ok(d.0);
                    }
                },
            };
            match r {
                Some((i, s)) => {
                    d.u(i as u64 + 1);
                    dg_sym(&mut d, &s)
                }
                None => d.u(0),
            }
        }
        Q::VerReq(_) | Q::VerDef(_) => match f.symbol_version_table().map_err(|_| ())? {
            Some(t) => return dg_version(&t, q),
            None => d.u(0),
        },
    }
    Ok(d.0)
}

/// The same queries through the stream parser. Hash lookups and a few slice-only accessors have no
/// stream counterpart: they return None (not comparable).
pub fn eval_stream<E: EndianParse, S: Read + Seek>(f: &mut ElfStream<E, S>, q: &Q) -> Option<QR> {
    let mut d = Dg::new();
    let r: Result<(), ()> = (|| {
        let shdr = |f: &ElfStream<E, S>, i: usize| -> Result<SectionHeader, ()> { f.section_headers().get(i).copied().ok_or(()) };
        let phdr = |f: &ElfStream<E, S>, i: usize| -> Result<ProgramHeader, ()> { f.segments().get(i).copied().ok_or(()) };
        match q {
            Q::Ehdr => dg_ehdr(&mut d, &f.ehdr),
            Q::Counts => {
                // the stream parser does not distinguish "absent" from "empty": compare element counts only
                d.u(f.section_headers().len() as u64);
                d.u(f.segments().len() as u64);
            }
            Q::Shdr(i) => dg_shdr(&mut d, &shdr(f, *i)?),
            Q::Phdr(i) => dg_phdr(&mut d, &phdr(f, *i)?),
            Q::SecData(_) | Q::FabSecData(_) => {
                let h = match q {
                    Q::SecData(i) => shdr(f, *i)?,
                    Q::FabSecData(h) => *h,
                    _ => unreachable!(),
                };
                let (b, ch) = f.section_data(&h).map_err(|_| ())?;
                d.b(b);
                if let Some(c) = ch {
                    d.u(c.ch_type as u64);
                    d.u(c.ch_size);
                    d.u(c.ch_addralign);
                }
            }
            Q::SecStrtab(_) | Q::FabSecStrtab(_) => {
                let h = match q {
                    Q::SecStrtab(i) => shdr(f, *i)?,
                    Q::FabSecStrtab(h) => *h,
                    _ => unreachable!(),
                };
                dg_strtab(&mut d, &f.section_data_as_strtab(&h).map_err(|_| ())?, h.sh_size)
            }
            Q::SecRels(_) | Q::FabSecRels(_) => {
                let h = match q {
                    Q::SecRels(i) => shdr(f, *i)?,
                    Q::FabSecRels(h) => *h,
                    _ => unreachable!(),
                };
                for (k, r) in f.section_data_as_rels(&h).map_err(|_| ())?.enumerate() {
                    d.u(r.r_offset);
                    d.u(r.r_sym as u64);
                    d.u(r.r_type as u64);
                    if k > ITEM_CAP {
                        break;
                    }
                }
            }
            Q::SecRelas(_) | Q::FabSecRelas(_) => {
                let h = match q {
                    Q::SecRelas(i) => shdr(f, *i)?,
                    Q::FabSecRelas(h) => *h,
                    _ => unreachable!(),
                };
                for (k, r) in f.section_data_as_relas(&h).map_err(|_| ())?.enumerate() {
                    d.u(r.r_offset);
                    d.u(r.r_sym as u64);
                    d.u(r.r_type as u64);
                    d.u(r.r_addend as u64);
                    if k > ITEM_CAP {
                        break;
                    }
                }
            }
            Q::SecNotes(_) | Q::FabSecNotes(_) => {
                let h = match q {
                    Q::SecNotes(i) => shdr(f, *i)?,
                    Q::FabSecNotes(h) => *h,
                    _ => unreachable!(),
                };
                dg_notes(&mut d, f.section_data_as_notes(&h).map_err(|_| ())?)
            }
            Q::SegData(_) | Q::CommonDynamic => return Err(()),
            Q::SegNotes(_) | Q::FabSegNotes(_) => {
                let p = match q {
                    Q::SegNotes(i) => phdr(f, *i)?,
                    Q::FabSegNotes(p) => *p,
                    _ => unreachable!(),
                };
                dg_notes(&mut d, f.segment_data_as_notes(&p).map_err(|_| ())?)
            }
            Q::ShStrName(i) => {
                let (sh, st) = f.section_headers_with_strtab().map_err(|_| ())?;
                match st {
                    Some(st) => {
                        let h = sh.get(*i).ok_or(())?;
                        d.b(st.get_raw(h.sh_name as usize).map_err(|_| ())?);
                    }
                    None => {
                        d.u(!sh.is_empty() as u64);
                        d.u(0)
                    }
                }
            }
            Q::ByName(n) => match f.section_header_by_name(n).map_err(|_| ())? {
                Some(h) => dg_shdr(&mut d, h),
                None => d.u(0),
            },
            Q::Symtab => match f.symbol_table().map_err(|_| ())? {
                Some((t, s)) => dg_symtab(&mut d, &t, &s),
                None => d.u(0),
            },
            Q::Dynsym => match f.dynamic_symbol_table().map_err(|_| ())? {
                Some((t, s)) => dg_symtab(&mut d, &t, &s),
                None => d.u(0),
            },
            Q::Dynamic => match f.dynamic().map_err(|_| ())? {
                Some(t) => {
                    d.u(t.len() as u64);
                    for (k, x) in t.iter().enumerate() {
                        d.u(x.d_tag as u64);
                        d.u(x.d_val());
                        if k > ITEM_CAP {
                            break;
                        }
                    }
                }
                None => d.u(0),
            },
            Q::SysvFind(_) | Q::GnuFind(_) => return Err(()),
            Q::VerReq(_) | Q::VerDef(_) => match f.symbol_version_table().map_err(|_| ())? {
                Some(t) => {
                    d.0 = dg_version(&t, q)?;
                    return Ok(());
                }
                None => d.u(0),
            },
        }
        Ok(())
    })();
    if matches!(q, Q::SegData(_) | Q::SysvFind(_) | Q::GnuFind(_) | Q::CommonDynamic) {
        return None;
    }
    Some(r.map(|_| d.0))
}
