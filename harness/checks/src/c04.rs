//! C04 — endian-aware integer reads return the exact value and advance exactly.
use crate::common::*;
use crate::with_endian;

const KINDS: [(&str, usize, bool); 6] = [("u8", 1, false), ("u16", 2, false), ("u32", 4, false), ("u64", 8, false), ("i32", 4, true), ("i64", 8, true)];

/// Reference: shift-and-add of buffer[offset..offset+w] in the given byte order.
fn reference(buf: &[u8], off: usize, w: usize, little: bool) -> Option<u64> {
    let end = off.checked_add(w)?;
    let s = buf.get(off..end)?;
    let mut v: u64 = 0;
    for i in 0..w {
        let shift = if little { 8 * i } else { 8 * (w - 1 - i) };
        v = v.wrapping_add((s[i] as u64) << shift);
    }
    Some(v)
}

fn check(spec: u8, kind: usize, buf: &[u8], off: usize, obs: &mut Obs) -> Result<(), String> {
    let (kname, w, signed) = KINDS[kind];
    let little = spec_is_little(spec);
    let mut o = off;
    // value as u64 bit pattern (sign-extended for the signed kinds)
    let got: Result<u64, ParseError> = with_endian!(spec, |e| {
        if e.is_little() != little || e.is_big() == e.is_little() {
            return Err(format!("{}: is_little()={} is_big()={} expected little={}", SPEC_NAMES[spec as usize], e.is_little(), e.is_big(), little));
        }
        match kind {
            0 => e.parse_u8_at(&mut o, buf).map(|v| v as u64),
            1 => e.parse_u16_at(&mut o, buf).map(|v| v as u64),
            2 => e.parse_u32_at(&mut o, buf).map(|v| v as u64),
            3 => e.parse_u64_at(&mut o, buf),
            4 => e.parse_i32_at(&mut o, buf).map(|v| v as i64 as u64),
            _ => e.parse_i64_at(&mut o, buf).map(|v| v as u64),
        }
    });
    let want = reference(buf, off, w, little).map(|v| {
        if signed && w == 4 {
            v as u32 as i32 as i64 as u64
        } else {
            v
        }
    });
    let ctx = || format!("{} parse_{}_at(offset={}, buf={} [len {}])", SPEC_NAMES[spec as usize], kname, off, hex(&buf[..buf.len().min(40)]), buf.len());
    match (&got, want) {
        (Ok(g), Some(wv)) => {
            if *g != wv {
                return Err(format!("{}: returned {:#x}, reference {:#x}", ctx(), g, wv));
            }
            if o != off + w {
                return Err(format!("{}: offset advanced to {}, expected {}", ctx(), o, off + w));
            }
            obs.label("ok_read");
            let s = &buf[off..off + w];
            let distinct = (0..w).all(|i| (0..i).all(|j| s[i] != s[j]));
            if off != 0 && (w == 1 || distinct) {
                obs.nontrivial();
            }
            obs.label_if(signed && (wv as i64) < 0, "negative_signed");
            obs.label_if(off + w == buf.len(), "read_touches_end");
        }
        (Err(_), None) => {
            if o != off {
                return Err(format!("{}: failed read moved the offset from {} to {}", ctx(), off, o));
            }
            obs.label("err_read");
            obs.label_if(off.checked_add(w).is_none(), "offset_overflow");
            if off != 0 {
                obs.nontrivial();
            }
        }
        (Ok(g), None) => return Err(format!("{}: returned Ok({:#x}) although fewer than {} bytes remain", ctx(), g, w)),
        (Err(e), Some(wv)) => return Err(format!("{}: returned Err({}) although the value {:#x} is readable", ctx(), err_name(e), wv)),
    }
    // "the run-time specification behaves identically to the matching compile-time one" (and the native one to the
    // build target's): the complete result, error variant and payload included, and the cursor
    let twin: Option<u8> = match spec {
        2 => Some(0),
        3 => Some(1),
        4 => Some(if cfg!(target_endian = "little") { 0 } else { 1 }),
        _ => None,
    };
    if let Some(tw) = twin {
        let mut o2 = off;
        let got2: Result<u64, ParseError> = with_endian!(tw, |e| Ok::<_, String>(match kind {
            0 => e.parse_u8_at(&mut o2, buf).map(|v| v as u64),
            1 => e.parse_u16_at(&mut o2, buf).map(|v| v as u64),
            2 => e.parse_u32_at(&mut o2, buf).map(|v| v as u64),
            3 => e.parse_u64_at(&mut o2, buf),
            4 => e.parse_i32_at(&mut o2, buf).map(|v| v as i64 as u64),
            _ => e.parse_i64_at(&mut o2, buf).map(|v| v as u64),
        }))?;
        if format!("{:?}", got) != format!("{:?}", got2) || o != o2 {
            return Err(format!("{}: returned {:?} (cursor {}), the {} specification returns {:?} (cursor {})", ctx(), got, o, SPEC_NAMES[tw as usize], got2, o2));
        }
    }
    obs.describe(|| json!({"spec": SPEC_NAMES[spec as usize], "kind": kname, "offset": off, "buf_hex": hex(&buf[..buf.len().min(48)]), "buf_len": buf.len(), "result": match want { Some(v) => format!("{:#x}", v), None => "Err".into() }}));
    Ok(())
}

/// Enumerated sub-domain, plain encoding: [spec, kind(0|1), offset, buf...]
fn oracle_small(case: &[u8], obs: &mut Obs) -> Result<(), String> {
    if case.len() < 3 {
        return Ok(());
    }
    let spec = case[0] % 5;
    let kind = (case[1] % 2) as usize;
    let off = case[2] as usize;
    check(spec, kind, &case[3..], off, obs)
}

fn enum_small(shard: usize, nshards: usize, _tier: Tier, emit: &mut dyn FnMut(&[u8]) -> bool) {
    let mut n = 0usize;
    // u8: every byte value at every position of buffers of length 0..=4, every offset 0..len+9
    for spec in 0..5u8 {
        for len in 0..=4usize {
            for off in 0..len + 9 {
                for v in 0..=255u8 {
                    n += 1;
                    if n % nshards != shard {
                        continue;
                    }
                    let mut c = vec![spec, 0, off as u8];
                    for i in 0..len {
                        c.push(if i == off { v } else { 0xa0 + i as u8 });
                    }
                    if len == 0 && v != 0 {
                        continue;
                    }
                    if off >= len && v > 3 {
                        continue;
                    }
                    if !emit(&c) {
                        return;
                    }
                }
            }
        }
    }
    // u16: all 65536 byte pairs at every position of a 4-byte window, plus every failing offset
    for spec in 0..5u8 {
        for pos in 0..3usize {
            for v in 0..=0xffffu32 {
                n += 1;
                if n % nshards != shard {
                    continue;
                }
                let mut b = [0x5a, 0xa5, 0x3c, 0xc3];
                b[pos] = (v >> 8) as u8;
                b[pos + 1] = v as u8;
                let c = [spec, 1, pos as u8, b[0], b[1], b[2], b[3]];
                if !emit(&c) {
                    return;
                }
            }
        }
        for len in 0..=4usize {
            for off in 0..len + 9 {
                n += 1;
                if n % nshards != shard {
                    continue;
                }
                let mut c = vec![spec, 1, off as u8];
                for i in 0..len {
                    c.push(0x11 * (i as u8 + 1));
                }
                if !emit(&c) {
                    return;
                }
            }
        }
    }
}

/// A buffer of 2^32 + 64 bytes (zero pages, mapped lazily): reads whose window ends at or beyond byte 2^32.
fn big_buffer() -> &'static [u8] {
    static B: std::sync::OnceLock<Vec<u8>> = std::sync::OnceLock::new();
    B.get_or_init(|| {
        let mut v = vec![0u8; (1usize << 32) + 64];
        let base = (1usize << 32) - 32;
        for i in 0..96 {
            v[base + i] = (i as u8).wrapping_mul(7).wrapping_add(3);
        }
        v
    })
}

/// plain encoding: [spec, kind, delta] with offset = 2^32 - 16 + delta
fn oracle_big(case: &[u8], obs: &mut Obs) -> Result<(), String> {
    if case.len() < 3 {
        return Ok(());
    }
    let off = (1usize << 32) - 16 + case[2] as usize;
    check(case[0] % 5, (case[1] % 6) as usize, big_buffer(), off, obs)
}

fn enum_big(shard: usize, _n: usize, _t: Tier, emit: &mut dyn FnMut(&[u8]) -> bool) {
    // one shard only: the buffer is shared
    if shard != 0 {
        return;
    }
    for spec in 0..5u8 {
        for kind in 0..6u8 {
            for delta in 0..90u8 {
                if !emit(&[spec, kind, delta]) {
                    return;
                }
            }
        }
    }
}

/// Random sub-domain (choice sequence): all widths, offsets incl. the neighbourhood of usize::MAX.
fn oracle_random(case: &[u8], obs: &mut Obs) -> Result<(), String> {
    let mut c = Choice::new(case);
    let spec = c.below(5) as u8;
    let kind = c.below(6) as usize;
    let w = KINDS[kind].1;
    let len = match c.below(4) {
        0 => c.below(w as u64 + 2) as usize,
        1 => w + c.below(3) as usize,
        _ => c.below(41) as usize,
    };
    let off = match c.below(10) {
        0 => usize::MAX - c.below(17) as usize,
        // 2^s + (an offset that would be readable): a cursor whose high bits fall off in any widening/shifting step
        8 | 9 => (1usize << (32 + c.below(32))).wrapping_add(c.below(len as u64 + 2) as usize),
        1 => c.u64() as usize,
        2 => len.saturating_sub(w),
        3 => (len + 1).saturating_sub(w),
        4 => *c.pick(BOUNDARY) as usize,
        _ => c.below(len as u64 + 10) as usize,
    };
    let mut buf = vec![0u8; len];
    // value bytes: boundary / sign patterns placed at the read position, the rest arbitrary
    for b in buf.iter_mut() {
        *b = c.u8();
    }
    if off.checked_add(w).map(|e| e <= len).unwrap_or(false) {
        let v = c.field(8 * w as u32);
        if c.chance(160) {
            for i in 0..w {
                buf[off + i] = (v >> (8 * i)) as u8;
            }
        }
    }
    // the buffer at an arbitrary address residue
    let lead = c.below(9) as usize;
    let mut b2 = vec![0x5au8; lead];
    b2.extend_from_slice(&buf);
    check(spec, kind, &b2[lead..], off, obs)
}

pub fn property() -> Property {
    Property {
        id: "C04",
        level: "exploration",
        rule: "cases are (byte-order spec in {LE,BE,Any::Little,Any::Big,Native}, width in {u8,u16,u32,u64,i32,i64}, buffer, offset); oracle = shift-and-add reference, offset'=offset+w on success, Err and offset untouched on failure; the run-time and native specifications return exactly what the matching fixed specification returns (value or error variant with its payload, and cursor). small: exhaustive enumeration for u8/u16 (every byte value / byte pair at every position and every failing offset of buffers of length 0..4). random: proptest choice sequences for all widths with boundary/sign patterns and offsets incl. usize::MAX-16..=usize::MAX and 2^s+i for s in 32..63 with i a readable offset. beyond_4gib: reads at offsets 2^32-16 .. 2^32+73 of a 2^32+64 byte buffer (lazily mapped zero pages), all specs and widths. Non-trivial: a successful read at a non-zero offset of a value with pairwise distinct bytes, or a failing read at a non-zero offset; distinct by case hash.",
        assumptions: &["64-bit little-endian host: NativeEndian is compared with cfg!(target_endian) of this build only"],
        subs: vec![Sub::enumerated("small", oracle_small, enum_small, true), Sub::new("random", oracle_random, 96, 3_000_000, 40_000_000), Sub::enumerated("beyond_4gib", oracle_big, enum_big, false)],
        extras: vec![crate::fuzz::c04_choice],
    }
}
