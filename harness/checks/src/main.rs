//! CLI used by ./check:   verif-checks <ID> quick|thorough   |   verif-checks <ID> --replay <file>
use std::path::Path;
use verif_model::run::{self, Tier};


#[global_allocator]
static ALLOC: verif_model::alloc::Shim = verif_model::alloc::Shim;


fn main() {
    let args: Vec<String> = std::env::args().collect();
    if args.len() < 3 {
        eprintln!("usage: verif-checks <ID> quick|thorough | <ID> --replay <file> | selfcheck all");
        std::process::exit(2);
    }
    run::install_panic_hook();
    let seed: u64 = std::env::var("VERIF_SEED").ok().and_then(|s| s.trim().parse::<i64>().ok()).map(|v| v as u64).unwrap_or(0);
    if args[1] == "selfcheck" {
        match selfcheck() {
            Ok(m) => {
                println!("selfcheck ok: {}", m);
                std::process::exit(0)
            }
            Err(e) => {
                eprintln!("selfcheck FAILED (harness defect, not a property violation): {}", e);
                std::process::exit(2)
            }
        }
    }
    let props = verif_checks::properties();
    let props: &'static Vec<run::Property> = Box::leak(Box::new(props));
    let prop = match props.iter().find(|p| p.id == args[1]) {
        Some(p) => p,
        None => {
            eprintln!("unknown property {}", args[1]);
            std::process::exit(2);
        }
    };
    if args[2] == "--replay" {
        let f = args.get(3).expect("replay file");
        let cf = match run::read_case_file(Path::new(f)) {
            Ok(c) => c,
            Err(e) => {
                eprintln!("{}", e);
                std::process::exit(2)
            }
        };
        match run::replay(prop, &cf, true) {
            Ok(()) => {
                println!("replay: property {} subcheck {} holds on this case", prop.id, cf.subcheck);
                std::process::exit(0);
            }
            Err(m) => {
                println!("VIOLATION property={} replay={}", prop.id, f);
                println!("  {}", m);
                std::process::exit(1);
            }
        }
    }
    let tier = match args[2].as_str() {
        "quick" => Tier::Quick,
        "thorough" => Tier::Thorough,
        other => {
            eprintln!("unknown tier {}", other);
            std::process::exit(2);
        }
    };
    if let Err(e) = selfcheck() {
        eprintln!("selfcheck FAILED (harness defect, not a property violation): {}", e);
        std::process::exit(2);
    }
    let out = run::run_property(prop, tier, seed);
    if !out.violations.is_empty() {
        std::process::exit(1);
    }
    if let Some(m) = out.inconclusive {
        eprintln!("INCONCLUSIVE property={} : {}", prop.id, m);
        std::process::exit(2);
    }
    if out.evaluations == 0 {
        eprintln!("INCONCLUSIVE property={} : zero cases executed", prop.id);
        std::process::exit(2);
    }
    println!("OK property={} tier={} seed={} evaluations={}", prop.id, tier.name(), seed, out.evaluations);
    std::process::exit(0);
}

/// Self-checks of the harness that do not involve the crate under test.
fn selfcheck() -> Result<String, String> {
    let root = run::verif_root();
    let tsv = std::fs::read_to_string(root.join("reference/struct_layout.tsv")).map_err(|e| format!("reference/struct_layout.tsv: {}", e))?;
    let layout = verif_model::elfw::parse_layout(&tsv);
    let n = verif_model::elfw::selfcheck(&layout)?;
    Ok(format!("writer layout agrees with <elf.h> on {} fields", n))
}
