//! CLI used by ./check:   verif-checks <ID> quick|thorough   |   verif-checks <ID> --replay <file>
use std::path::Path;
use verif_model::run::{self, Tier};


#[global_allocator]
static ALLOC: verif_model::alloc::Shim = verif_model::alloc::Shim;


fn main() {
    let args: Vec<String> = std::env::args().collect();
    if args.len() < 3 {
        eprintln!("usage: verif-checks <ID> quick|thorough | <ID> --replay <file> | selfcheck all");
        std::process::exit(2);
    }
    run::install_panic_hook();
    let seed: u64 = std::env::var("VERIF_SEED").ok().and_then(|s| s.trim().parse::<i64>().ok()).map(|v| v as u64).unwrap_or(0);
    if args[1] == "selfcheck" {
        match selfcheck() {
            Ok(m) => {
                println!("selfcheck ok: {}", m);
                std::process::exit(0)
            }
            Err(e) => {
                eprintln!("selfcheck FAILED (harness defect, not a property violation): {}", e);
                std::process::exit(2)
            }
        }
    }
    let props = verif_checks::properties();
    let props: &'static Vec<run::Property> = Box::leak(Box::new(props));
    let prop = match props.iter().find(|p| p.id == args[1]) {
        Some(p) => p,
        None => {
            eprintln!("unknown property {}", args[1]);
            std::process::exit(2);
        }
    };
    if args[2] == "--replay" {
        let f = args.get(3).expect("replay file");
        let cf = match run::read_case_file(Path::new(f)) {
            Ok(c) => c,
            Err(e) => {
                eprintln!("{}", e);
                std::process::exit(2)
            }
        };
        match run::replay(prop, &cf, true) {
            Ok(()) => {
                println!("replay: property {} subcheck {} holds on this case", prop.id, cf.subcheck);
                std::process::exit(0);
            }
            Err(m) => {
                println!("VIOLATION property={} replay={}", prop.id, f);
                println!("  {}", m);
                std::process::exit(1);
            }
        }
    }
    let tier = match args[2].as_str() {
        "quick" => Tier::Quick,
        "thorough" => Tier::Thorough,
        other => {
            eprintln!("unknown tier {}", other);
            std::process::exit(2);
        }
    };
    if let Err(e) = selfcheck() {
        eprintln!("selfcheck FAILED (harness defect, not a property violation): {}", e);
        std::process::exit(2);
    }
    let out = run::run_property(prop, tier, seed);
    if !out.violations.is_empty() {
        std::process::exit(1);
    }
    if let Some(m) = out.inconclusive {
        eprintln!("INCONCLUSIVE property={} : {}", prop.id, m);
        std::process::exit(2);
    }
    if out.evaluations == 0 {
        eprintln!("INCONCLUSIVE property={} : zero cases executed", prop.id);
        std::process::exit(2);
    }
    println!("OK property={} tier={} seed={} evaluations={}", prop.id, tier.name(), seed, out.evaluations);
    std::process::exit(0);
}

/// Self-checks of the harness that do not involve the crate under test.
fn selfcheck() -> Result<String, String> {
    let root = run::verif_root();
    let tsv = std::fs::read_to_string(root.join("reference/struct_layout.tsv")).map_err(|e| format!("reference/struct_layout.tsv: {}", e))?;
    let layout = verif_model::elfw::parse_layout(&tsv);
    let n = verif_model::elfw::selfcheck(&layout)?;
    // the writer and the independent reader against linker-produced bytes: every header of every sample object,
    // decoded and re-encoded, must reproduce the file bytes; the GNU hash builder must reproduce .gnu.hash
    let mut headers = 0;
    let mut hashes = 0;
    for (name, b) in verif_model::inputs::samples().iter() {
        headers += verif_model::refs::roundtrip_headers(b).map_err(|e| format!("sample {}: {}", name, e))?;
        hashes += rebuild_gnu_hash(b).map_err(|e| format!("sample {}: {}", name, e))?;
    }
    if verif_model::inputs::samples().len() < 8 {
        return Err(format!("only {} sample objects found under corpus/", verif_model::inputs::samples().len()));
    }
    Ok(format!("writer layout agrees with <elf.h> on {} fields; {} headers of {} sample objects re-encode byte for byte; {} .gnu.hash sections rebuilt byte for byte", n, headers, verif_model::inputs::samples().len(), hashes))
}

/// Rebuild the .gnu.hash section of a sample object from its dynamic symbol names with the independent builder and
/// compare byte for byte (validates refs::build_gnu_hash against the linker).
fn rebuild_gnu_hash(b: &[u8]) -> Result<usize, String> {
    use verif_model::{elfw, refs};
    let (e, eh) = refs::read_ehdr(b).ok_or("ehdr")?;
    if eh.e_shoff == 0 || eh.e_shnum == 0 {
        return Ok(0);
    }
    let sh = |i: usize| refs::read_shdr(e, b, eh.e_shoff as usize + i * elfw::shdr_size(e));
    let mut n = 0;
    for i in 0..eh.e_shnum as usize {
        let Some(h) = sh(i) else { continue };
        if h.sh_type != elfw::SHT_GNU_HASH {
            continue;
        }
        let sec = b.get(h.sh_offset as usize..(h.sh_offset + h.sh_size) as usize).ok_or("gnu hash range")?;
        let dynsym = sh(h.sh_link as usize).ok_or("dynsym")?;
        let dynstr = sh(dynsym.sh_link as usize).ok_or("dynstr")?;
        let strs = b.get(dynstr.sh_offset as usize..(dynstr.sh_offset + dynstr.sh_size) as usize).ok_or("dynstr range")?;
        let p = refs::GnuParams { nbucket: refs::rd_u32(e.le, sec, 0).ok_or("hdr")?, symoffset: refs::rd_u32(e.le, sec, 4).ok_or("hdr")?, nbloom: refs::rd_u32(e.le, sec, 8).ok_or("hdr")?, shift: refs::rd_u32(e.le, sec, 12).ok_or("hdr")? };
        let nsyms = (dynsym.sh_size as usize) / elfw::sym_size(e);
        // the number of hashed symbols is what the chain array holds (an executable without exported symbols has an
        // empty table although symoffset < nsyms)
        let fixed = 16 + p.nbloom as usize * if e.c64 { 8 } else { 4 } + p.nbucket as usize * 4;
        let nhashed = sec.len().saturating_sub(fixed) / 4;
        let mut names = vec![];
        for k in p.symoffset as usize..(p.symoffset as usize + nhashed).min(nsyms) {
            let off = dynsym.sh_offset as usize + k * elfw::sym_size(e);
            let st_name = refs::rd_u32(e.le, b, off).ok_or("sym")? as usize;
            let end = strs[st_name..].iter().position(|z| *z == 0).ok_or("nul")?;
            names.push(strs[st_name..st_name + end].to_vec());
        }
        let rebuilt = refs::build_gnu_hash(e, &names, &p);
        if rebuilt != sec {
            return Err(format!(".gnu.hash rebuilt from {} names differs from the linker's section ({} vs {} bytes)", names.len(), rebuilt.len(), sec.len()));
        }
        n += 1;
    }
    Ok(n)
}
