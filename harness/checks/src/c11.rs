//! C11 (GNU hash) and C12 (SysV hash): lookup is sound on any table and complete on well-formed ones.
use crate::common::*;
use crate::conv;
use crate::with_endian;
use elf::hash::{gnu_hash, sysv_hash, GnuHashTable, SysVHashTable};
use elf::string_table::StringTable;
use elf::symbol::SymbolTable;
use verif_model::refs;

#[derive(Clone, Copy, PartialEq)]
enum Flavor {
    Gnu,
    SysV,
}

fn hash_of(f: Flavor, n: &[u8]) -> u32 {
    match f {
        Flavor::Gnu => refs::djb2(n),
        Flavor::SysV => refs::elf_hash(n),
    }
}

fn random_name(c: &mut Choice) -> Vec<u8> {
    let l = match c.below(8) {
        0 => 1,
        1 | 2 => 1 + c.below(3) as usize,
        3 => 7 + c.below(12) as usize,
        _ => 1 + c.below(9) as usize,
    };
    let style = c.below(4);
    (0..l)
        .map(|_| {
            let b = match style {
                0 => b'a' + c.below(4) as u8,
                1 => 1 + c.below(255) as u8,
                2 => 0x80 | c.u8(),
                _ => b'!' + c.below(90) as u8,
            };
            b.max(1)
        })
        .collect()
}

/// Name set with duplicates, the empty name, hash collisions, low-bit neighbours and same-bucket names.
fn gen_names(c: &mut Choice, f: Flavor, nbucket: u32) -> Vec<Vec<u8>> {
    // (rarely a very large set: thousands of symbols on a handful of chains)
    let huge = c.u8() == 0xC3 && c.u8() >= 200;
    let n = match c.below(16) {
        _ if huge => 4200 + c.below(3000) as usize,
        0 => 0,
        1 | 2 => 1 + c.below(3) as usize,
        3..=10 => 2 + c.below(12) as usize,
        11..=14 => 10 + c.below(50) as usize,
        _ => 60 + c.below(241) as usize,
    };
    let mut names: Vec<Vec<u8>> = vec![];
    for i in 0..n {
        if huge {
            names.push(vec![b'h', 1 + (i % 250) as u8, 1 + (i / 250 % 250) as u8, b'x']);
            continue;
        }
        let k = c.below(12);
        let prev = if names.is_empty() { None } else { Some(names[c.idx(names.len())].clone()) };
        let nm: Vec<u8> = match (k, prev) {
            (0, _) => vec![],
            (1, Some(p)) => p,
            // a proper suffix of an earlier name (string tables merge tails)
            (8, Some(p)) if p.len() >= 2 => p[1 + c.idx(p.len() - 1)..].to_vec(),
            // GNU: a longer name with the same hash that has an earlier name as proper prefix; a name whose hash is 0 or 1
            (6, Some(p)) if f == Flavor::Gnu && c.chance(90) => refs::djb2_extend_collide(&p, c.u16() as u32).unwrap_or(p),
            (7, _) if f == Flavor::Gnu && c.chance(50) => refs::djb2_suffix_to(b"", c.below(2) as u32, c.u16() as u32).unwrap_or_else(|| random_name(c)),
            // SysV: names that drive the running hash to 0x0fffffff before the next shift (low-nibble-f bytes)
            (6, _) if f == Flavor::SysV => {
                let mut v = vec![*c.pick(&[0x0fu8, 0x1f, 0xff, 0x7f]); 6 + c.below(3) as usize];
                v.push(0x10 + c.below(0xe0) as u8);
                if c.bool() {
                    v.push(1 + c.below(250) as u8);
                }
                v
            }
            (2, Some(p)) | (3, Some(p)) => match f {
                Flavor::Gnu => refs::djb2_collide(&p).unwrap_or(p),
                Flavor::SysV => refs::elf_hash_collide(&p).unwrap_or(p),
            },
            (4, Some(p)) if !p.is_empty() => {
                // neighbour whose hash differs in the low bit only (GNU) / by one (SysV)
                let mut q = p.clone();
                let l = q.len();
                q[l - 1] ^= 1;
                if q[l - 1] == 0 {
                    q[l - 1] = 3;
                }
                q
            }
            (5, Some(p)) if nbucket > 0 => {
                // a different name in the same bucket (bounded search)
                let target = hash_of(f, &p) % nbucket;
                let mut found = None;
                for t in 0..64u32 {
                    let q = vec![b'k', 1 + (t as u8), 1 + c.u8() % 250];
                    if hash_of(f, &q) % nbucket == target {
                        found = Some(q);
                        break;
                    }
                }
                found.unwrap_or_else(|| random_name(c))
            }
            _ => random_name(c),
        };
        names.push(nm);
        if f == Flavor::Gnu && c.u8() >= 250 && !names[names.len() - 1].is_empty() {
            let p = names[names.len() - 1].clone();
            let mut pre = p.clone();
            pre.push(0);
            if let Some(full) = refs::djb2_suffix_to(&pre, refs::djb2(&p), c.u16() as u32) {
                names.push(full[pre.len()..].to_vec());
            }
        }
    }
    names
}

fn gen_queries(c: &mut Choice, f: Flavor, names: &[Vec<u8>], nbucket: u32) -> Vec<Vec<u8>> {
    let mut q: Vec<Vec<u8>> = if names.len() > 400 {
        // first, last and a spread of names (every chain depth is reached by some of them)
        let step = names.len() / 48 + 1;
        let mut v: Vec<Vec<u8>> = names.iter().step_by(step).cloned().collect();
        v.push(names[names.len() - 1].clone());
        v.push(names[1.min(names.len() - 1)].clone());
        v
    } else {
        names.to_vec()
    };
    let extra = 2 + c.below(10) as usize;
    for _ in 0..extra {
        if names.is_empty() {
            q.push(random_name(c));
            continue;
        }
        let p = names[c.idx(names.len())].clone();
        match c.below(8) {
            0 | 1 => {
                if let Some(x) = match f {
                    Flavor::Gnu => refs::djb2_collide(&p),
                    Flavor::SysV => refs::elf_hash_collide(&p),
                } {
                    q.push(x)
                }
            }
            2 => {
                let mut x = p.clone();
                x.push(b'!');
                q.push(x)
            }
            3 if !p.is_empty() => {
                let mut x = p.clone();
                let l = x.len();
                x[l - 1] ^= 1;
                if x[l - 1] != 0 {
                    q.push(x)
                }
            }
            4 if nbucket > 0 => {
                let target = hash_of(f, &p) % nbucket;
                for t in 0..64u32 {
                    let x = vec![b'z', 1 + t as u8, b'q'];
                    if hash_of(f, &x) % nbucket == target {
                        q.push(x);
                        break;
                    }
                }
            }
            5 if !p.is_empty() => q.push(p[..p.len() - 1].to_vec()),
            6 if f == Flavor::Gnu && p.len() > 8 => q.push(p[..p.len() - 8].to_vec()),
            _ => q.push(random_name(c)),
        }
    }
    q.push(vec![]);
    q
}

struct Built {
    enc: Enc,
    spec: u8,
    all: Vec<Vec<u8>>,
    first_hashed: usize,
    tab: refs::SymTab,
    hash: Vec<u8>,
    params: String,
}

fn build(c: &mut Choice, f: Flavor) -> (Built, Vec<Vec<u8>>) {
    let enc = ALL_ENC[c.below(4) as usize];
    let spec = specs_for(enc.le)[c.below(2) as usize];
    let nbucket = match c.below(6) {
        0 => 1,
        1 => 2,
        2 => 1 + c.below(8) as u32,
        3 => 1 + c.below(64) as u32,
        _ => 1 + c.below(17) as u32,
    };
    let mut names = gen_names(c, f, nbucket);
    let nbucket = if names.len() > 400 { 1 + nbucket % 3 } else { nbucket };
    let share = c.bool();
    let seed = c.u16() as u64;
    match f {
        Flavor::Gnu => {
            let symoffset = 1 + c.below(4) as u32;
            let nbloom = 1u32 << c.below(7);
            let shift = c.below(32) as u32;
            refs::gnu_sort(&mut names, nbucket);
            let mut all: Vec<Vec<u8>> = vec![vec![]];
            for i in 1..symoffset {
                all.push(vec![1, b'u', b'0' + i as u8]);
            }
            all.extend(names.iter().cloned());
            let tab = refs::build_symtab(enc, &all, seed, share);
            let p = refs::GnuParams { nbucket, nbloom, shift, symoffset };
            let hash = refs::build_gnu_hash(enc, &names, &p);
            let queries = gen_queries(c, f, &all, nbucket);
            (Built { enc, spec, all, first_hashed: symoffset as usize, tab, hash, params: format!("{:?}", p) }, queries)
        }
        Flavor::SysV => {
            let mut all: Vec<Vec<u8>> = vec![vec![]];
            all.extend(names.iter().cloned());
            let tab = refs::build_symtab(enc, &all, seed, share);
            let mode = c.below(3);
            let bits = c.u64();
            let hash = refs::build_sysv_hash(enc, &all, nbucket, &|i| match mode {
                0 => true,
                1 => false,
                _ => (bits >> (i % 64)) & 1 == 1,
            });
            let queries = gen_queries(c, f, &all, nbucket);
            (Built { enc, spec, all, first_hashed: 1, tab, hash, params: format!("nbucket={} nchain={} insert_mode={}", nbucket, names.len() + 1, mode) }, queries)
        }
    }
}

fn find<E: EndianParse>(f: Flavor, e: E, class: Class, hash: &[u8], symtab: &[u8], strtab: &[u8], q: &[u8]) -> Result<Result<Option<(usize, elf::symbol::Symbol)>, ParseError>, ParseError> {
    let st = SymbolTable::new(e, class, symtab);
    let strs = StringTable::new(strtab);
    Ok(match f {
        Flavor::Gnu => GnuHashTable::new(e, class, hash)?.find(q, &st, &strs),
        Flavor::SysV => SysVHashTable::new(e, class, hash)?.find(q, &st, &strs),
    })
}

fn oracle_wellformed(case: &[u8], obs: &mut Obs, f: Flavor) -> Result<(), String> {
    let mut c = Choice::new(case);
    let (b, queries) = build(&mut c, f);
    let class = class_of(b.enc);
    let fname = if f == Flavor::Gnu { "GnuHashTable" } else { "SysVHashTable" };
    let mut hits = 0u64;
    let mut absent_colliding = 0u64;
    let mut absent = 0u64;
    let mut queries = queries;
    // queries spelling two adjacent string-table entries with the NUL between them
    for w in b.all.windows(2).take(40) {
        if !w[0].is_empty() && !w[1].is_empty() {
            let mut q = w[0].clone();
            q.push(0);
            q.extend_from_slice(&w[1]);
            queries.push(q);
        }
    }
    // present names with a NUL appended (what CStr::to_bytes_with_nul would hand over): no symbol carries such a name
    for k in 0..b.all.len().min(6) {
        let mut q = b.all[b.all.len() - 1 - k].clone();
        q.push(0);
        queries.push(q);
    }
    // queries that are SLICES OF THE STRING TABLE'S OWN BUFFER (a caller that got a name from the table and asks for a
    // prefix of it): the answer depends on the bytes, not on where they live
    for k in 0..b.all.len().min(8) {
        let i = b.all.len() - 1 - k;
        let off = b.tab.syms[i].st_name as usize;
        let full = b.all[i].len();
        for l in [0usize, full / 2, full.saturating_sub(1), full] {
            if let Some(q) = b.tab.strtab.get(off..off + l) {
                let present = (b.first_hashed..b.all.len()).any(|j| b.all[j] == q);
                let r = with_endian!(b.spec, |e| find(f, e, class, &b.hash, &b.tab.symtab, &b.tab.strtab, q));
                let got = r.map_err(|e| format!("::new failed with {}", err_name(&e)))?.map_err(|e| format!("find of a slice of the string table failed with {}", err_name(&e)))?;
                if got.is_some() != present || got.as_ref().map(|(j, _)| b.all[*j] != q).unwrap_or(false) {
                    return Err(format!("{} {} {} [{}] with {} symbols: query {:?} given as the slice [{}, {}) of the string table itself answers {:?} (present: {})", b.enc.name(), SPEC_NAMES[b.spec as usize], fname, b.params, b.all.len(), String::from_utf8_lossy(q), off, off + l, got.map(|x| x.0), present));
                }
            }
        }
    }
    for q in &queries {
        let present: Vec<usize> = (b.first_hashed..b.all.len()).filter(|i| &b.all[*i] == q).collect();
        let r = with_endian!(b.spec, |e| find(f, e, class, &b.hash, &b.tab.symtab, &b.tab.strtab, q));
        let ctx = || format!("{} {} {} [{}] with {} symbols, query {:?}", b.enc.name(), SPEC_NAMES[b.spec as usize], fname, b.params, b.all.len(), String::from_utf8_lossy(q));
        let r = r.map_err(|e| format!("{}: ::new failed with {} on a well-formed section", ctx(), err_name(&e)))?;
        match r {
            Ok(Some((i, s))) => {
                if !present.contains(&i) {
                    return Err(format!("{}: returned index {} whose name is {:?}; indexes carrying the name: {:?}", ctx(), i, b.all.get(i).map(|n| String::from_utf8_lossy(n).to_string()), present));
                }
                if !conv::FieldEq::field_eq(&s, &conv::sym(&b.tab.syms[i], b.enc)) {
                    return Err(format!("{}: returned symbol {:?} which is not symbol-table entry {} ({:?})", ctx(), s, i, b.tab.syms[i]));
                }
                hits += 1;
            }
            Ok(None) => {
                if !present.is_empty() {
                    return Err(format!("{}: returned None but symbol(s) {:?} carry that name", ctx(), present));
                }
                absent += 1;
                let h = hash_of(f, q);
                if (b.first_hashed..b.all.len()).any(|i| {
                    let hi = hash_of(f, &b.all[i]);
                    hi == h || (f == Flavor::Gnu && hi | 1 == h | 1)
                }) {
                    absent_colliding += 1;
                }
            }
            Err(e) => return Err(format!("{}: find failed with {} on a well-formed table", ctx(), err_name(&e))),
        }
    }
    obs.count("hits", hits);
    obs.count("absent", absent);
    obs.count("absent_hash_colliding", absent_colliding);
    // the same queries on ONE table value, ordered so that names with equal hash values follow each other (in both
    // directions): a lookup must not depend on the lookups made before it
    {
        let mut order: Vec<&Vec<u8>> = queries.iter().collect();
        order.sort_by_key(|q| (hash_of(f, q), q.len()));
        let idx_of = |q: &Vec<u8>| -> Option<usize> { (b.first_hashed..b.all.len()).find(|i| &b.all[*i] == q) };
        let mut symtab2 = b.tab.symtab.clone();
        let (es, vo, vl) = if b.enc.c64 { (24, 8, 8) } else { (16, 4, 4) };
        for ent in symtab2.chunks_mut(es) {
            if ent.len() == es {
                for x in &mut ent[vo..vo + vl] {
                    *x = !*x;
                }
            }
        }
        let r: Result<(), String> = with_endian!(b.spec, |e| (|| -> Result<(), String> {
            let st = SymbolTable::new(e, class, &b.tab.symtab);
            let st2 = SymbolTable::new(e, class, &symtab2);
            let strs = StringTable::new(&b.tab.strtab);
            let both: Vec<&Vec<u8>> = order.iter().copied().chain(order.iter().rev().copied()).collect();
            match f {
                Flavor::Gnu => {
                    let t = GnuHashTable::new(e, class, &b.hash).map_err(|er| format!("::new failed with {}", err_name(&er)))?;
                    for q in both {
                        let got = t.find(q, &st, &strs).map_err(|er| format!("find failed with {}", err_name(&er)))?.map(|x| x.0);
                        let present = idx_of(q).is_some();
                        if got.is_some() != present || got.map(|i| &b.all[i] != q).unwrap_or(false) {
                            return Err(format!("query {:?} answered {:?} when asked after other queries on the same table value (present: {})", String::from_utf8_lossy(q), got, present));
                        }
                        // the same handle with ANOTHER symbol table (same names, every st_value inverted): the entry
                        // handed out is the one of the table passed to this call
                        let got2 = t.find(q, &st2, &strs).map_err(|er| format!("find failed with {}", err_name(&er)))?;
                        let want2 = got.map(|i| st2.get(i).map_err(|er| format!("harness: {}", err_name(&er)))).transpose()?;
                        if got2.as_ref().map(|x| x.0) != got || got2.as_ref().map(|x| x.1.st_value) != want2.as_ref().map(|x| x.st_value) {
                            return Err(format!("query {:?} with a second symbol table on the same table value answered {:?}; that table's entry is {:?}", String::from_utf8_lossy(q), got2, want2));
                        }
                    }
                }
                Flavor::SysV => {
                    let t = SysVHashTable::new(e, class, &b.hash).map_err(|er| format!("::new failed with {}", err_name(&er)))?;
                    for q in both {
                        let got = t.find(q, &st, &strs).map_err(|er| format!("find failed with {}", err_name(&er)))?.map(|x| x.0);
                        let present = idx_of(q).is_some();
                        if got.is_some() != present || got.map(|i| &b.all[i] != q).unwrap_or(false) {
                            return Err(format!("query {:?} answered {:?} when asked after other queries on the same table value (present: {})", String::from_utf8_lossy(q), got, present));
                        }
                        // the same handle with ANOTHER symbol table (same names, every st_value inverted): the entry
                        // handed out is the one of the table passed to this call
                        let got2 = t.find(q, &st2, &strs).map_err(|er| format!("find failed with {}", err_name(&er)))?;
                        let want2 = got.map(|i| st2.get(i).map_err(|er| format!("harness: {}", err_name(&er)))).transpose()?;
                        if got2.as_ref().map(|x| x.0) != got || got2.as_ref().map(|x| x.1.st_value) != want2.as_ref().map(|x| x.st_value) {
                            return Err(format!("query {:?} with a second symbol table on the same table value answered {:?}; that table's entry is {:?}", String::from_utf8_lossy(q), got2, want2));
                        }
                    }
                }
            }
            Ok(())
        })());
        r.map_err(|m| format!("{} {} {} [{}] with {} symbols: {}", b.enc.name(), SPEC_NAMES[b.spec as usize], fname, b.params, b.all.len(), m))?;
    }
    // chain statistics for the non-triviality rule
    let nb = queries.len();
    let _ = nb;
    let mut multi_chain = false;
    {
        use std::collections::HashMap;
        let mut per: HashMap<u32, u32> = HashMap::new();
        let nbucket: u32 = rd_nbucket(&b);
        for i in b.first_hashed..b.all.len() {
            *per.entry(hash_of(f, &b.all[i]) % nbucket.max(1)).or_insert(0) += 1;
        }
        if per.values().any(|v| *v >= 2) {
            multi_chain = true;
        }
    }
    obs.label_if(multi_chain, "chain_of_2+");
    obs.label_if(absent_colliding > 0, "absent_colliding_query");
    obs.label_if(b.all.len() > 60, "large_set");
    obs.label(b.enc.name());
    if multi_chain && absent_colliding > 0 {
        obs.nontrivial();
    }
    obs.key = fnv64(&b.hash) ^ fnv64(&b.tab.strtab).rotate_left(9) ^ b.spec as u64;
    obs.describe(|| json!({"enc": b.enc.name(), "spec": SPEC_NAMES[b.spec as usize], "params": b.params, "symbols": b.all.len(), "names_sample": b.all.iter().take(8).map(|n| String::from_utf8_lossy(n).to_string()).collect::<Vec<_>>(), "queries": queries.len(), "hits": hits, "absent": absent, "absent_with_colliding_hash": absent_colliding}));
    Ok(())
}

fn rd_nbucket(b: &Built) -> u32 {
    refs::rd_u32(b.enc.le, &b.hash, 0).unwrap_or(1)
}

/// Soundness on arbitrary (corrupted) tables: Some((i,s)) => s == symtab[i] and name(s) == query.
fn oracle_sound(case: &[u8], obs: &mut Obs, f: Flavor) -> Result<(), String> {
    let mut c = Choice::new(case);
    let (mut b, queries) = build(&mut c, f);
    let class = class_of(b.enc);
    let nmut = 1 + c.below(8) as usize;
    let raw = c.chance(30);
    if raw {
        let l = c.below(200) as usize;
        b.hash = c.bytes(l);
    }
    for _ in 0..nmut {
        let which = c.below(8);
        let buf = match which {
            0 => &mut b.tab.symtab,
            1 => &mut b.tab.strtab,
            _ => &mut b.hash,
        };
        if buf.is_empty() {
            continue;
        }
        match c.below(5) {
            0 => {
                let i = c.idx(buf.len());
                buf[i] = c.u8();
            }
            1 => {
                // overwrite an aligned 32-bit word with a boundary value
                let wi = c.idx(buf.len() / 4 + 1) * 4;
                let v = (c.val(32) as u32).to_le_bytes();
                for k in 0..4 {
                    if wi + k < buf.len() {
                        buf[wi + k] = if b.enc.le { v[k] } else { v[3 - k] };
                    }
                }
            }
            2 => {
                let nl = c.idx(buf.len() + 1);
                buf.truncate(nl);
            }
            3 => {
                let i = c.idx(buf.len());
                buf[i] ^= 1 << c.below(8);
            }
            _ => {
                let k = c.below(9) as usize;
                let ext = c.bytes(k);
                buf.extend_from_slice(&ext);
            }
        }
    }
    let mut somes = 0u64;
    let mut errs = 0u64;
    for q in queries.iter().take(40) {
        let r = with_endian!(b.spec, |e| find(f, e, class, &b.hash, &b.tab.symtab, &b.tab.strtab, q));
        match r {
            Err(_) => {
                errs += 1;
                break;
            }
            Ok(Err(_)) => errs += 1,
            Ok(Ok(None)) => {}
            Ok(Ok(Some((i, s)))) => {
                somes += 1;
                let ok = with_endian!(b.spec, |e| {
                    let st = SymbolTable::new(e, class, &b.tab.symtab);
                    let strs = StringTable::new(&b.tab.strtab);
                    matches!(st.get(i), Ok(ref g) if *g == s) && matches!(strs.get_raw(s.st_name as usize), Ok(n) if n == &q[..])
                });
                if !ok {
                    return Err(format!("{} {} lookup of {:?} on a corrupted table returned ({}, {:?}) which is not the symbol-table entry at that index carrying that name; hash section = {}", b.enc.name(), if f == Flavor::Gnu { "GNU" } else { "SysV" }, String::from_utf8_lossy(q), i, s, hex(&b.hash[..b.hash.len().min(96)])));
                }
            }
        }
    }
    obs.count("some_results", somes);
    obs.count("err_results", errs);
    obs.label_if(somes > 0, "some_on_corrupted");
    obs.label_if(raw, "raw_bytes");
    if somes > 0 || errs > 0 {
        obs.nontrivial();
    }
    obs.key = fnv64(&b.hash) ^ fnv64(&b.tab.symtab).rotate_left(7) ^ fnv64(&b.tab.strtab).rotate_left(13);
    obs.describe(|| json!({"enc": b.enc.name(), "mutations": nmut, "raw": raw, "hash_section_hex": hex(&b.hash[..b.hash.len().min(64)]), "some_results": somes, "err_results": errs}));
    Ok(())
}

fn hashfn_random(case: &[u8], obs: &mut Obs, f: Flavor) -> Result<(), String> {
    let mut c = Choice::new(case);
    let l = match c.below(4) {
        0 => c.below(8) as usize,
        _ => c.below(65) as usize,
    };
    let hi = c.bool();
    let mut name: Vec<u8> = (0..l).map(|_| if hi { c.u8() | 0x80 } else { c.u8() }).collect();
    if c.chance(40) {
        // saturate the running value: bytes with an all-ones low nibble, then a byte >= 0x10
        let k = 5 + c.below(5) as usize;
        let b = *c.pick(&[0x0fu8, 0xff, 0x1f, 0x7f, 0xef]);
        name = vec![b; k];
        name.push(c.u8());
        name.push(c.u8());
    }
    let (got, want) = match f {
        Flavor::Gnu => (gnu_hash(&name), refs::djb2(&name)),
        Flavor::SysV => (sysv_hash(&name), refs::elf_hash(&name)),
    };
    if got != want {
        return Err(format!("hash of {} = {:#x}, reference {:#x}", hex(&name), got, want));
    }
    if l > 6 {
        obs.nontrivial();
    }
    obs.label_if(hi, "high_bytes");
    obs.describe(|| json!({"name_hex": hex(&name), "hash": format!("{:#x}", want)}));
    Ok(())
}

/// plain encoding: the case bytes are the name (alphabet of 16 symbols, length <= 3, exhaustive)
fn hashfn_small(case: &[u8], obs: &mut Obs, f: Flavor) -> Result<(), String> {
    let (got, want) = match f {
        Flavor::Gnu => (gnu_hash(case), refs::djb2(case)),
        Flavor::SysV => (sysv_hash(case), refs::elf_hash(case)),
    };
    if got != want {
        return Err(format!("hash of {} = {:#x}, reference {:#x}", hex(case), got, want));
    }
    if case.len() >= 2 {
        obs.nontrivial();
    }
    obs.describe(|| json!({"name_hex": hex(case), "hash": format!("{:#x}", want)}));
    Ok(())
}

fn enum_hash_small(shard: usize, nshards: usize, _t: Tier, emit: &mut dyn FnMut(&[u8]) -> bool) {
    const A: [u8; 16] = [0, 1, b'0', b'A', b'Z', b'_', b'a', b'z', 0x7f, 0x80, 0x81, 0xc3, 0xe0, 0xf0, 0xfe, 0xff];
    let mut n = 0;
    for len in 0..=3usize {
        for code in 0..(1usize << (4 * len)) {
            n += 1;
            if n % nshards != shard {
                continue;
            }
            let s: Vec<u8> = (0..len).map(|i| A[(code >> (4 * i)) & 15]).collect();
            if !emit(&s) {
                return;
            }
        }
    }
}

fn gnu_well(c: &[u8], o: &mut Obs) -> Result<(), String> {
    oracle_wellformed(c, o, Flavor::Gnu)
}
fn gnu_sound(c: &[u8], o: &mut Obs) -> Result<(), String> {
    oracle_sound(c, o, Flavor::Gnu)
}
fn gnu_hr(c: &[u8], o: &mut Obs) -> Result<(), String> {
    hashfn_random(c, o, Flavor::Gnu)
}
fn gnu_hs(c: &[u8], o: &mut Obs) -> Result<(), String> {
    hashfn_small(c, o, Flavor::Gnu)
}
fn sysv_well(c: &[u8], o: &mut Obs) -> Result<(), String> {
    oracle_wellformed(c, o, Flavor::SysV)
}
fn sysv_sound(c: &[u8], o: &mut Obs) -> Result<(), String> {
    oracle_sound(c, o, Flavor::SysV)
}
fn sysv_hr(c: &[u8], o: &mut Obs) -> Result<(), String> {
    hashfn_random(c, o, Flavor::SysV)
}
fn sysv_hs(c: &[u8], o: &mut Obs) -> Result<(), String> {
    hashfn_small(c, o, Flavor::SysV)
}

pub fn property_c11() -> Property {
    Property {
        id: "C11",
        level: "exploration",
        rule: "wellformed: cases are (class, order, fixed/run-time spec, name set of 0..300 names with duplicates, empty name, bytes>=0x80, constructed djb2 collisions (a,b)->(a+1,b-33), collisions between a name and a LONGER name having it as prefix and names whose hash is 0 or 1 (both by meet-in-the-middle), proper suffixes of other names (tail-merged string tables), pairs P, X adjacent in the string table with djb2(P\\0X) = djb2(P), rarely 4 200..7 200 symbols on 1..3 chains, low-bit neighbours and same-bucket names, nbucket, bloom words 1..64 (powers of two), shift 0..31, symoffset 1..4, shared or unshared string-table entries); the section is built per the GNU format by an independent builder; queries = every symbol name plus absent names (colliding, same-bucket, low-bit neighbours, prefixes, extensions, random, the concatenation of two adjacent string-table entries with the NUL between them, and present names with a NUL appended); oracle = linear scan: Some((i,s)) only with i a hashed index carrying the name and s == symtab[i], None iff no hashed symbol carries the name, never Err. All queries are repeated on ONE table value in hash order (both directions), each also with a second symbol table of the same names and inverted st_value: every answer is a function of that call's arguments (the entry comes from the table passed to it). sound: the same after 1..8 random corruptions of hash section / symtab / strtab (or raw bytes): Some((i,s)) => symtab[i]==s and name(s)==query. hashfn: gnu_hash == djb2 reference exhaustively on all strings of length<=3 over a 16-symbol alphabet and on random strings up to 64 bytes. Non-trivial (wellformed): a table with >=2 symbols in one chain and at least one absent query whose hash collides (ignoring bit 0) with a present one; distinct by table hash.",
        assumptions: &["duplicate names: any index carrying the queried name is accepted", "well-formed tables use power-of-two bloom sizes and shifts 0..31 as the GNU format requires"],
        subs: vec![
            Sub::new("wellformed", gnu_well, 2600, 200_000, 8_000_000),
            Sub::new("sound", gnu_sound, 2600, 200_000, 8_000_000),
            Sub::enumerated("hashfn_small", gnu_hs, enum_hash_small, true),
            Sub::new("hashfn_random", gnu_hr, 160, 2_000_000, 40_000_000),
        ],
        extras: vec![crate::fuzz::c11_choice_well, crate::fuzz::c11_choice_sound],
    }
}

pub fn property_c12() -> Property {
    Property {
        id: "C12",
        level: "exploration",
        rule: "wellformed: cases are (class, order, fixed/run-time spec, name set of 0..300 names with duplicates, empty name, bytes>=0x80, names longer than 6 bytes, elf_hash collisions found by search, names that drive the running hash to 0x0fffffff before the next shift, proper suffixes of other names (tail-merged string tables), rarely 4 200..7 200 symbols on 1..3 chains, same-bucket names, nbucket 1..64, head/tail/mixed chain insertion); the .hash section is built per the gABI (nchain = symbol count, chains end at STN_UNDEF); queries = every symbol name plus absent names incl. colliding ones and present names with a NUL appended; oracle = linear scan over symbols 1..n: Some((i,s)) only with i>=1 carrying the name and s == symtab[i], None iff absent (so symbol 0 is never returned), never Err. All queries are repeated on ONE table value in hash order (both directions), each also with a second symbol table of the same names and inverted st_value: every answer is a function of that call's arguments (the entry comes from the table passed to it). sound: same after random corruption: Some((i,s)) => symtab[i]==s and name(s)==query. hashfn: sysv_hash == gABI elf_hash (32-bit arithmetic) exhaustively on all strings of length<=3 over a 16-symbol alphabet incl. high bytes and on random strings up to 64 bytes. Non-trivial (wellformed): >=2 symbols in one chain and an absent colliding query; distinct by table hash.",
        assumptions: &["duplicate names: any index carrying the queried name is accepted"],
        subs: vec![
            Sub::new("wellformed", sysv_well, 2600, 200_000, 8_000_000),
            Sub::new("sound", sysv_sound, 2600, 200_000, 8_000_000),
            Sub::enumerated("hashfn_small", sysv_hs, enum_hash_small, true),
            Sub::new("hashfn_random", sysv_hr, 160, 2_000_000, 40_000_000),
        ],
        extras: vec![crate::fuzz::c12_choice_well, crate::fuzz::c12_choice_sound],
    }
}
