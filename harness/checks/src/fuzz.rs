//! Coverage-guided campaigns (libFuzzer through cargo-fuzz, thorough tier only) over the same oracle
//! functions the proptest drivers use. A crash artifact is replayed in-process, shrunk and turned into
//! an ordinary replay file; `-timeout` artifacts are a violation for C16 only, inconclusive elsewhere.
use crate::common::*;
use std::path::{Path, PathBuf};
use std::process::Command;
use verif_model::inputs;
use verif_model::run::{self, eval, eval_isolated, ExtraOutcome, Iso, OracleFn};

struct Plan {
    prop: &'static str,
    name: &'static str,
    target: &'static str,
    oracle_env: &'static str,
    oracle: OracleFn,
    subcheck: &'static str,
    hang_is_violation: bool,
    /// seeds get a zero "arguments" prefix byte (raw layout [n][args][file]) or are the file itself
    prefix_byte: bool,
    /// Some(n): the fuzz input is the choice sequence of the sub-check's oracle (at most n bytes are read); the seed
    /// corpus is a set of pseudo-random sequences instead of files
    choice_len: Option<usize>,
}

fn secs() -> u64 {
    std::env::var("VERIF_FUZZ_SECS").ok().and_then(|v| v.parse().ok()).unwrap_or(90)
}

fn write_seeds(dir: &Path, prefix_byte: bool) -> usize {
    let _ = std::fs::create_dir_all(dir);
    let mut n = 0;
    let mut put = |name: String, file: &[u8]| {
        let mut v = vec![];
        if prefix_byte {
            v.push(0u8);
        }
        v.extend_from_slice(file);
        if std::fs::write(dir.join(name), &v).is_ok() {
            n += 1;
        }
        // a second copy with a few argument bytes so that mutations of the arguments have something to act on
        if prefix_byte {
            let mut w = vec![24u8];
            w.extend((0..24u8).map(|i| i.wrapping_mul(37).wrapping_add(11)));
            w.extend_from_slice(file);
            let _ = std::fs::write(dir.join("args_".to_string() + &n.to_string()), &w);
        }
    };
    for (name, b) in inputs::samples().iter() {
        if b.len() <= 20_000 {
            put(format!("sample_{}", name), b);
        }
    }
    // generated valid files from fixed seeds
    let o = verif_model::filegen::RichOpts { override_chance: 0, corrupt_chance: 0, max_gap: 8, tables_early: true, allow_compressed: true, max_names: 6, shrink_chance: 0, many_sections: false };
    for seed in 1..=24u64 {
        let mut bytes = vec![0u8; 700];
        verif_model::choice::fill(seed, &mut bytes);
        let mut c = Choice::new(&bytes);
        let r = verif_model::filegen::rich_file(&mut c, &o);
        put(format!("gen_{}", seed), &r.built.bytes);
    }
    n
}

fn write_choice_seeds(dir: &Path, max_len: usize, seed: u64) -> usize {
    let _ = std::fs::create_dir_all(dir);
    let mut n = 0;
    for k in 0..48u64 {
        let len = match k % 6 {
            0 => 0,
            1 => 16,
            2 => max_len / 8,
            3 => max_len / 3,
            _ => max_len,
        };
        let mut v = vec![0u8; len];
        verif_model::choice::fill(seed.wrapping_mul(1000).wrapping_add(k) | 1, &mut v);
        if std::fs::write(dir.join(format!("choice_{}", k)), &v).is_ok() {
            n += 1;
        }
    }
    n
}

/// The oracle and choice-sequence length of a registered sub-check.
pub fn find_sub(prop: &str, sub: &str) -> Option<(OracleFn, usize)> {
    for p in crate::properties() {
        if p.id == prop {
            for s in &p.subs {
                if s.name == sub {
                    return Some((s.oracle, s.max_len));
                }
            }
        }
    }
    None
}

fn campaign(p: &Plan, tier: Tier, seed: u64) -> ExtraOutcome {
    let mut out = ExtraOutcome { name: p.name, evaluations: 0, nontrivial: 0, samples: vec![], detail: json!({"skipped": "libFuzzer campaigns run in the thorough tier only"}), failure: None, inconclusive: None };
    if tier != Tier::Thorough {
        return out;
    }
    let root = run::verif_root();
    let fuzz_dir = root.join("harness/fuzz");
    let work = root.join("out").join(p.prop).join(format!("fuzz-{}-{}", p.name, seed));
    let _ = std::fs::remove_dir_all(&work);
    let corpus = work.join("corpus");
    let artifacts = work.join("artifacts");
    let _ = std::fs::create_dir_all(&artifacts);
    let nseeds = match p.choice_len {
        Some(n) => write_choice_seeds(&corpus, n, seed),
        None => write_seeds(&corpus, p.prefix_byte),
    };
    let max_len = match p.choice_len {
        Some(n) => format!("-max_len={}", (n + n / 4).max(64)),
        None => "-max_len=70000".to_string(),
    };
    let t = secs();
    let build = Command::new("cargo").args(["+nightly", "fuzz", "build", "-s", "none", p.target]).current_dir(&fuzz_dir).env("CARGO_NET_OFFLINE", "true").output();
    match build {
        Ok(o) if o.status.success() => {}
        Ok(o) => {
            out.inconclusive = Some(format!("cargo fuzz build {} failed: {}", p.target, String::from_utf8_lossy(&o.stderr).lines().rev().take(5).collect::<Vec<_>>().join(" | ")));
            return out;
        }
        Err(e) => {
            out.inconclusive = Some(format!("cannot run cargo fuzz: {}", e));
            return out;
        }
    }
    let fseed = ((seed % 0x7fff_fffe) + 1).to_string();
    let workers = std::thread::available_parallelism().map(|n| n.get()).unwrap_or(4).min(16).to_string();
    let run = Command::new("cargo")
        .args(["+nightly", "fuzz", "run", "-s", "none", p.target, corpus.to_str().unwrap(), "--"])
        .args([&format!("-artifact_prefix={}/", artifacts.display()), &format!("-seed={}", fseed), &format!("-max_total_time={}", t), &max_len, "-len_control=0", "-timeout=60", "-rss_limit_mb=4096", &format!("-fork={}", workers), "-ignore_crashes=1", "-ignore_timeouts=1", "-ignore_ooms=1", "-print_final_stats=1"])
        .current_dir(&fuzz_dir)
        .env("CARGO_NET_OFFLINE", "true")
        .env("VERIF_FUZZ_ORACLE", p.oracle_env)
        .env("VERIF_ROOT", root.to_str().unwrap())
        .output();
    let stderr = match run {
        Ok(o) => String::from_utf8_lossy(&o.stderr).to_string(),
        Err(e) => {
            out.inconclusive = Some(format!("cannot run cargo fuzz run: {}", e));
            return out;
        }
    };
    // statistics: the last progress line of the fork master
    let mut execs = 0u64;
    let mut cov = 0u64;
    let mut ft = 0u64;
    let mut corp = 0u64;
    for l in stderr.lines() {
        if let Some(rest) = l.strip_prefix('#') {
            let mut it = rest.split_whitespace();
            if let Some(n) = it.next().and_then(|x| x.trim_end_matches(':').parse::<u64>().ok()) {
                execs = execs.max(n);
            }
            let toks: Vec<&str> = rest.split_whitespace().collect();
            for w in toks.windows(2) {
                match w[0] {
                    "cov:" => cov = w[1].parse().unwrap_or(cov),
                    "ft:" => ft = w[1].parse().unwrap_or(ft),
                    "corp:" => corp = w[1].split('/').next().and_then(|x| x.parse().ok()).unwrap_or(corp),
                    _ => {}
                }
            }
        }
    }
    let corpus_files = std::fs::read_dir(&corpus).map(|d| d.count()).unwrap_or(0);
    out.evaluations = execs;
    out.nontrivial = corp.max(corpus_files as u64);
    out.detail = json!({"engine": "libFuzzer (cargo-fuzz, -fork)", "target": p.target, "oracle": p.oracle_env, "seconds": t, "seed": fseed, "seed_files": nseeds, "executions": execs, "coverage_edges": cov, "features": ft, "corpus_units_at_end": corp, "corpus_files_at_end": corpus_files, "nontrivial_rule": "distinct_nontrivial for this step = corpus units kept by libFuzzer because they reached new coverage"});
    out.samples = vec![json!({"seed_corpus": if p.choice_len.is_some() { "48 pseudo-random choice sequences of lengths 0..max_len (the fuzz input is the oracle's choice sequence: libFuzzer mutates decisions of the generator, coverage feedback comes from the crate and from the generator)" } else { "the linker-produced sample objects and 24 generated valid files, each also with a 24-byte argument prefix" }, "final_stats_line": stderr.lines().rev().find(|l| l.starts_with('#')).unwrap_or("")})];
    if execs == 0 {
        out.inconclusive = Some(format!("libFuzzer reported no executions: {}", stderr.lines().rev().take(4).collect::<Vec<_>>().join(" | ")));
    }
    // artifacts
    let mut files: Vec<PathBuf> = std::fs::read_dir(&artifacts).map(|d| d.filter_map(|e| e.ok()).map(|e| e.path()).collect()).unwrap_or_default();
    files.sort();
    for f in files {
        let name = f.file_name().unwrap().to_string_lossy().to_string();
        let Ok(bytes) = std::fs::read(&f) else { continue };
        if name.starts_with("crash-") {
            let mut obs = Obs::default();
            match eval(p.oracle, &bytes, &mut obs) {
                Err(msg) => {
                    let small = run::shrink_external(p.oracle, &bytes, 3000);
                    let mut o2 = Obs::default();
                    o2.want_desc = true;
                    let msg2 = eval(p.oracle, &small, &mut o2).err().unwrap_or(msg);
                    let rf = run::write_case_file(&root.join("out").join(p.prop), p.prop, p.subcheck, &small, &msg2, o2.desc);
                    out.failure = Some((format!("found by libFuzzer ({} executions): {}", execs, msg2), json!({"replay_file": rf.to_string_lossy()})));
                    break;
                }
                Ok(()) => {
                    // not reproduced in-process (e.g. a crash of the fuzzing process itself): report, do not claim
                    out.inconclusive = Some(format!("libFuzzer artifact {} does not reproduce through the oracle", f.display()));
                }
            }
        } else if name.starts_with("timeout-") {
            if p.hang_is_violation {
                match eval_isolated(p.oracle, &bytes, std::time::Duration::from_secs(60)) {
                    Iso::Stuck => {
                        let rf = run::write_case_file(&root.join("out").join(p.prop), p.prop, p.subcheck, &bytes, "a single input did not finish within 60 s (libFuzzer -timeout)", None);
                        out.failure = Some(("libFuzzer found an input on which a query does not return within 60 s".to_string(), json!({"replay_file": rf.to_string_lossy()})));
                        break;
                    }
                    Iso::Fail(m) => {
                        let rf = run::write_case_file(&root.join("out").join(p.prop), p.prop, p.subcheck, &bytes, &m, None);
                        out.failure = Some((m, json!({"replay_file": rf.to_string_lossy()})));
                        break;
                    }
                    Iso::Pass => {}
                }
            } else {
                out.inconclusive = Some(format!("libFuzzer reported a timeout artifact {} (not a violation of {})", f.display(), p.prop));
            }
        }
    }
    // keep the disk clean: the corpus is reproducible from the seeds
    let _ = std::fs::remove_dir_all(&corpus);
    out
}

macro_rules! camp {
    ($fname:ident, $prop:expr, $target:expr, $env:expr, $oracle:expr, $sub:expr, $hang:expr, $prefix:expr) => {
        pub fn $fname(tier: Tier, seed: u64) -> ExtraOutcome {
            campaign(&Plan { prop: $prop, name: "libfuzzer", target: $target, oracle_env: $env, oracle: $oracle, subcheck: $sub, hang_is_violation: $hang, prefix_byte: $prefix, choice_len: None }, tier, seed)
        }
    };
}
camp!(c01_campaign, "C01", "total", "c01", crate::c01::oracle_total_raw, "total_raw", false, true);
camp!(c06_campaign, "C06", "total", "c06", crate::c01::oracle_noalloc_raw, "noalloc_raw", false, true);
camp!(c16_campaign, "C16", "total", "c16", crate::c16::oracle_walk_raw, "walk_raw", true, true);
camp!(c07_campaign, "C07", "stream_diff", "c07", crate::c07::oracle_raw, "stream_diff_raw", false, true);
camp!(c08_campaign, "C08", "stream_diff", "c08", crate::c08::oracle_raw, "bounded_raw", false, true);
camp!(c18_campaign, "C18", "prefix", "c18", crate::c18::oracle_raw, "generated_raw", false, false);

/// Coverage-guided search over the *choice sequences* of a proptest sub-check (target `choice`).
macro_rules! chc {
    ($fname:ident, $prop:expr, $sub:expr, $label:expr) => {
        pub fn $fname(tier: Tier, seed: u64) -> ExtraOutcome {
            let (oracle, n) = find_sub($prop, $sub).expect("registered sub-check");
            campaign(&Plan { prop: $prop, name: $label, target: "choice", oracle_env: concat!($prop, ".", $sub), oracle, subcheck: $sub, hang_is_violation: false, prefix_byte: false, choice_len: Some(n) }, tier, seed)
        }
    };
}
chc!(c02_choice, "C02", "struct", "libfuzzer_choice_struct");
chc!(c03_choice, "C03", "ranges", "libfuzzer_choice_ranges");
chc!(c04_choice, "C04", "random", "libfuzzer_choice_random");
chc!(c05_choice, "C05", "tables", "libfuzzer_choice_tables");
chc!(c09_choice, "C09", "tables", "libfuzzer_choice_tables");
chc!(c10_choice, "C10", "equiv", "libfuzzer_choice_equiv");
chc!(c11_choice_well, "C11", "wellformed", "libfuzzer_choice_wellformed");
chc!(c11_choice_sound, "C11", "sound", "libfuzzer_choice_sound");
chc!(c12_choice_well, "C12", "wellformed", "libfuzzer_choice_wellformed");
chc!(c12_choice_sound, "C12", "sound", "libfuzzer_choice_sound");
chc!(c13_choice, "C13", "versions", "libfuzzer_choice_versions");
chc!(c14_choice, "C14", "notes", "libfuzzer_choice_notes");
chc!(c15_choice, "C15", "random", "libfuzzer_choice_random");
chc!(c17_choice, "C17", "faults", "libfuzzer_choice_faults");
chc!(c20_choice_paths, "C20", "paths", "libfuzzer_choice_paths");
chc!(c20_choice_damaged, "C20", "damaged", "libfuzzer_choice_damaged");
