//! C09 — lazy tables are coherent: len, get, iteration and emptiness agree.
use crate::common::*;
use crate::conv::{self, FieldEq};
use crate::with_endian;
use elf::dynamic::Dyn;
use elf::gnu_symver::VersionIndex;
use elf::relocation::{Rel, Rela};
use elf::section::SectionHeader;
use elf::segment::ProgramHeader;
use elf::symbol::Symbol;
use std::fmt::Debug;
use verif_model::elfw as m;

const TYPES: [&str; 9] = ["SectionHeader", "ProgramHeader", "Symbol", "Dyn", "VersionIndex", "u32", "u64", "Rel", "Rela"];

fn entsize(t: usize, e: Enc) -> usize {
    match t {
        0 => m::shdr_size(e),
        1 => m::phdr_size(e),
        2 => m::sym_size(e),
        3 => m::dyn_size(e),
        4 => 2,
        5 => 4,
        6 => 8,
        7 => m::rel_size(e),
        _ => m::rela_size(e),
    }
}

#[derive(Debug, Clone, Copy)]
enum Op {
    Get(usize),
    Len,
    IsEmpty,
    Iter,
    IntoIter,
    /// advance a long-lived iterator by k items while other accesses happen
    Step(usize),
    /// Iterator::nth(k) on the long-lived (already advanced) iterator
    Nth(usize),
    /// a fresh iterator driven through standard adaptors (skip / step_by / take / last / count)
    Adaptors(usize, usize),
}

fn run_script<E: EndianParse, P: ParseAt + PartialEq + Debug>(e: E, class: Class, bytes: &[u8], n: usize, eq: &dyn Fn(usize, &P) -> bool, script: &[Op], tname: &str, obs: &mut Obs) -> Result<(), String> {
    let ctx = |what: String| format!("{} table over {} bytes (whole entries: {}): {}", tname, bytes.len(), n, what);
    let t = || ParsingTable::<E, P>::new(e, class, bytes);
    let mut long_iter = t().iter();
    let mut long_pos = 0usize;
    for op in script {
        match *op {
            Op::Len => {
                let l = t().len();
                if l != n {
                    return Err(ctx(format!("len() = {}", l)));
                }
            }
            Op::IsEmpty => {
                if t().is_empty() != (n == 0) {
                    return Err(ctx(format!("is_empty() = {}", t().is_empty())));
                }
            }
            Op::Get(i) => {
                let r = t().get(i);
                match r {
                    Ok(v) => {
                        if i >= n {
                            return Err(ctx(format!("get({}) = Ok({:?}) beyond the last whole entry", i, v)));
                        }
                        if !eq(i, &v) {
                            return Err(ctx(format!("get({}) = {:?} differs from the encoded entry", i, v)));
                        }
                        obs.count("get_ok", 1);
                    }
                    Err(er) => {
                        if i < n {
                            return Err(ctx(format!("get({}) = Err({})", i, err_name(&er))));
                        }
                        obs.count("get_err", 1);
                        if i == n {
                            obs.label("get_at_len");
                        }
                    }
                }
            }
            Op::Iter | Op::IntoIter => {
                let it: ParsingIterator<'_, E, P> = if matches!(op, Op::Iter) { t().iter() } else { t().into_iter() };
                let mut k = 0usize;
                for v in it {
                    if k >= n {
                        return Err(ctx(format!("iteration yielded item #{} = {:?} beyond the whole entries", k, v)));
                    }
                    if !eq(k, &v) {
                        return Err(ctx(format!("iteration item #{} = {:?} differs from the encoded entry", k, v)));
                    }
                    let g = t().get(k);
                    match g {
                        Ok(gv) if gv == v => {}
                        other => return Err(ctx(format!("iteration item #{} = {:?} but get({}) = {:?}", k, v, k, other.map_err(|e| err_name(&e))))),
                    }
                    k += 1;
                }
                if k != n {
                    return Err(ctx(format!("iteration yielded {} items", k)));
                }
                obs.count("full_iterations", 1);
            }
            Op::Nth(k) => {
                let got = long_iter.nth(k);
                let want_idx = long_pos.saturating_add(k);
                match got {
                    Some(v) => {
                        if want_idx >= n || !eq(want_idx, &v) {
                            return Err(ctx(format!("nth({}) on an iterator that had yielded {} items returned {:?}, expected item #{}", k, long_pos, v, want_idx)));
                        }
                        long_pos = want_idx + 1;
                    }
                    None => {
                        if want_idx < n {
                            return Err(ctx(format!("nth({}) on an iterator that had yielded {} items returned None, expected item #{}", k, long_pos, want_idx)));
                        }
                        long_pos = n;
                    }
                }
            }
            Op::Adaptors(skip, step) => {
                let step = step.max(1);
                let mut k = 0usize;
                let mut idx = skip;
                for v in t().iter().skip(skip).step_by(step) {
                    if idx >= n || !eq(idx, &v) {
                        return Err(ctx(format!("iter().skip({}).step_by({}) item #{} = {:?} is not entry {}", skip, step, k, v, idx)));
                    }
                    idx += step;
                    k += 1;
                    if k > n + 1 {
                        return Err(ctx(format!("iter().skip({}).step_by({}) yielded more than {} items", skip, step, n + 1)));
                    }
                }
                let want = if skip >= n { 0 } else { (n - skip + step - 1) / step };
                if k != want {
                    return Err(ctx(format!("iter().skip({}).step_by({}) yielded {} items, expected {}", skip, step, k, want)));
                }
                let mut part = t().iter();
                let mut consumed = 0usize;
                for _ in 0..skip.min(n + 1) {
                    if part.next().is_some() {
                        consumed += 1;
                    }
                }
                let rest = part.count();
                if consumed + rest != n {
                    return Err(ctx(format!("count() on an iterator that had yielded {} items returned {}, expected {}", consumed, rest, n - consumed)));
                }
                if t().iter().count() != n {
                    return Err(ctx("iter().count() disagrees with len()".to_string()));
                }
                // Iterator::size_hint's contract: lower <= items still to come <= upper, on fresh and advanced iterators
                let mut part = t().iter();
                let mut left = n;
                loop {
                    let (lo, hi) = part.size_hint();
                    if lo > left || hi.map(|h| h < left).unwrap_or(false) {
                        return Err(ctx(format!("size_hint() = ({}, {:?}) on an iterator that will yield {} more items", lo, hi, left)));
                    }
                    if left == 0 || left + skip < n {
                        break;
                    }
                    if part.next().is_none() {
                        return Err(ctx(format!("iterator ended with {} items still expected", left)));
                    }
                    left -= 1;
                }
                match t().iter().last() {
                    Some(v) => {
                        if n == 0 || !eq(n - 1, &v) {
                            return Err(ctx(format!("iter().last() = {:?} is not the last whole entry", v)));
                        }
                    }
                    None => {
                        if n != 0 {
                            return Err(ctx("iter().last() is None on a non-empty table".to_string()));
                        }
                    }
                }
                let mut part = t().into_iter();
                for _ in 0..skip.min(n) {
                    let _ = part.next();
                }
                if let Some(v) = part.last() {
                    if !eq(n - 1, &v) {
                        return Err(ctx(format!("last() on a partly consumed iterator = {:?} is not the last whole entry", v)));
                    }
                }
                let mut f = t().iter().fuse();
                let mut k = 0usize;
                while f.next().is_some() && k <= n {
                    k += 1;
                }
                if f.next().is_some() || f.next().is_some() {
                    return Err(ctx("iter().fuse() yielded an item after None".to_string()));
                }
            }
            Op::Step(kk) => {
                for _ in 0..kk {
                    match long_iter.next() {
                        Some(v) => {
                            if long_pos >= n || !eq(long_pos, &v) {
                                return Err(ctx(format!("interleaved iterator item #{} = {:?} is wrong", long_pos, v)));
                            }
                            long_pos += 1;
                        }
                        None => {
                            if long_pos != n {
                                return Err(ctx(format!("interleaved iterator ended after {} items", long_pos)));
                            }
                            break;
                        }
                    }
                }
            }
        }
    }
    Ok(())
}

fn oracle(case: &[u8], obs: &mut Obs) -> Result<(), String> {
    let mut c = Choice::new(case);
    let t = c.below(9) as usize;
    let enc = ALL_ENC[c.below(4) as usize];
    let use_any = c.bool();
    let es = entsize(t, enc);
    let n = match c.below(4) {
        0 => c.below(3) as usize,
        _ => c.below(41) as usize,
    };
    let residue = if c.chance(140) { c.below(es as u64) as usize } else { 0 };
    // entries
    let mut w = m::W::new(enc);
    let mut shd = vec![];
    let mut phd = vec![];
    let mut syms = vec![];
    let mut dyns = vec![];
    let mut vals: Vec<u64> = vec![];
    let mut rels = vec![];
    let mut relas = vec![];
    for _ in 0..n {
        match t {
            0 => {
                let x = conv::gen_shdr(&mut c);
                x.write(&mut w);
                shd.push(conv::shdr(&x, enc));
            }
            1 => {
                let x = conv::gen_phdr(&mut c);
                x.write(&mut w);
                phd.push(conv::phdr(&x, enc));
            }
            2 => {
                let x = conv::gen_sym(&mut c);
                x.write(&mut w);
                syms.push(conv::sym(&x, enc));
            }
            3 => {
                let x = conv::gen_dyn(&mut c);
                x.write(&mut w);
                dyns.push(x);
            }
            4 => {
                let v = c.field(16);
                w.u16(v as u16);
                vals.push(v);
            }
            5 => {
                let v = c.field(32);
                w.u32(v as u32);
                vals.push(v);
            }
            6 => {
                let v = c.field(64);
                w.u64(v);
                vals.push(v);
            }
            7 => {
                let x = conv::gen_rel(&mut c);
                x.write(&mut w);
                rels.push(conv::rel(&x, enc));
            }
            _ => {
                let x = conv::gen_rela(&mut c);
                x.write(&mut w);
                relas.push(conv::rela(&x, enc));
            }
        }
    }
    let mut bytes = w.buf;
    if bytes.len() != n * es {
        return Err(format!("harness: writer emitted {} bytes for {} {} entries of ABI size {}", bytes.len(), n, TYPES[t], es));
    }
    for _ in 0..residue {
        bytes.push(c.u8() | 1);
    }
    // access script
    let nops = 3 + c.below(14) as usize;
    let mut script = vec![Op::Len, Op::IsEmpty];
    for _ in 0..nops {
        let op = match c.below(12) {
            10 => Op::Nth(c.below(4) as usize),
            11 => Op::Adaptors(c.below(n as u64 + 2) as usize, 1 + c.below(4) as usize),
            0 => Op::Len,
            1 => Op::IsEmpty,
            2 => Op::Iter,
            3 => Op::IntoIter,
            4 => Op::Step(1 + c.below(4) as usize),
            5 => Op::Get(match c.below(8) {
                0 => usize::MAX,
                1 => usize::MAX / es,
                2 => usize::MAX / es + 1,
                3 => 1usize << 63,
                4 => (1usize << 63) / es * 2,
                5 => (usize::MAX / es + 1).wrapping_add(c.below(n as u64 + 1) as usize),
                6 => usize::MAX - c.below(es as u64 * 2) as usize,
                7 if c.bool() => ((1 + c.below(5) as usize) << 32) | c.below(n as u64 + 1) as usize,
                _ => c.u64() as usize,
            }),
            6 => Op::Get(n),
            7 => Op::Get(n + 1 + c.below(2) as usize),
            _ => Op::Get(c.below(n as u64 + 1) as usize),
        };
        script.push(op);
    }
    script.push(Op::Iter);
    script.push(Op::Get(n));
    // the table at an arbitrary address residue
    let lead = c.below(9) as usize;
    let mut shifted = vec![0xc3u8; lead];
    shifted.extend_from_slice(&bytes);
    let bytes = &shifted[lead..];
    let class = class_of(enc);
    let spec: u8 = if use_any { specs_for(enc.le)[1] } else { specs_for(enc.le)[0] };
    let r = with_endian!(spec, |e| match t {
        0 => run_script::<_, SectionHeader>(e, class, bytes, n, &|i, v| v.field_eq(&shd[i]), &script, TYPES[t], obs),
        1 => run_script::<_, ProgramHeader>(e, class, &bytes, n, &|i, v| v.field_eq(&phd[i]), &script, TYPES[t], obs),
        2 => run_script::<_, Symbol>(e, class, &bytes, n, &|i, v| v.field_eq(&syms[i]), &script, TYPES[t], obs),
        3 => run_script::<_, Dyn>(e, class, &bytes, n, &|i, v| conv::dyn_eq(v, &dyns[i], enc), &script, TYPES[t], obs),
        4 => run_script::<_, VersionIndex>(e, class, &bytes, n, &|i, v| v.0 as u64 == vals[i], &script, TYPES[t], obs),
        5 => run_script::<_, u32>(e, class, &bytes, n, &|i, v| *v as u64 == vals[i], &script, TYPES[t], obs),
        6 => run_script::<_, u64>(e, class, &bytes, n, &|i, v| *v == vals[i], &script, TYPES[t], obs),
        7 => run_script::<_, Rel>(e, class, &bytes, n, &|i, v| v.field_eq(&rels[i]), &script, TYPES[t], obs),
        _ => run_script::<_, Rela>(e, class, &bytes, n, &|i, v| v.field_eq(&relas[i]), &script, TYPES[t], obs),
    });
    r.map_err(|s| format!("{} {} : {}", enc.name(), SPEC_NAMES[spec as usize], s))?;
    // the relocation iterators once more through DIRECT calls on the concrete types (run_script is generic, so an
    // inherent method that shadows a trait method would not be seen there)
    if t == 7 || t == 8 {
        let ks = [c.below(n as u64 + 2) as usize, n, usize::MAX, usize::MAX / es, (usize::MAX / es).wrapping_add(2), 1usize << 61];
        let consumed = c.below(n as u64 + 1) as usize;
        let r2: Result<(), String> = with_endian!(spec, |e| (|| -> Result<(), String> {
            for k in ks {
                let want = consumed.checked_add(k).filter(|i| *i < n);
                if t == 7 {
                    let mut it = elf::relocation::RelIterator::new(e, class, bytes);
                    for _ in 0..consumed {
                        it.next();
                    }
                    let got = it.nth(k);
                    if got.is_some() != want.is_some() || matches!((&got, want), (Some(g), Some(i)) if !g.field_eq(&rels[i])) {
                        return Err(format!("RelIterator over {} whole entries: nth({}) after {} items returned {:?}, expected entry {:?}", n, k, consumed, got, want));
                    }
                    let it = elf::relocation::RelIterator::new(e, class, bytes);
                    if it.count() != n || elf::relocation::RelIterator::new(e, class, bytes).last().map(|g| g.field_eq(&rels[n - 1])) == Some(false) {
                        return Err(format!("RelIterator over {} whole entries: count()/last() disagree with the table", n));
                    }
                } else {
                    let mut it = elf::relocation::RelaIterator::new(e, class, bytes);
                    for _ in 0..consumed {
                        it.next();
                    }
                    let got = it.nth(k);
                    if got.is_some() != want.is_some() || matches!((&got, want), (Some(g), Some(i)) if !g.field_eq(&relas[i])) {
                        return Err(format!("RelaIterator over {} whole entries: nth({}) after {} items returned {:?}, expected entry {:?}", n, k, consumed, got, want));
                    }
                    let it = elf::relocation::RelaIterator::new(e, class, bytes);
                    if it.count() != n || elf::relocation::RelaIterator::new(e, class, bytes).last().map(|g| g.field_eq(&relas[n - 1])) == Some(false) {
                        return Err(format!("RelaIterator over {} whole entries: count()/last() disagree with the table", n));
                    }
                }
            }
            Ok(())
        })());
        r2.map_err(|s| format!("{} {} : {}", enc.name(), SPEC_NAMES[spec as usize], s))?;
    }
    obs.label_if(residue != 0, "ragged");
    obs.label_if(n == 0, "no_whole_entry");
    obs.label(TYPES[t]);
    if residue != 0 || script.iter().any(|o| matches!(o, Op::Get(i) if *i == n)) {
        obs.nontrivial();
    }
    obs.key = fnv64(&bytes) ^ fnv64(format!("{:?}{}{}", script, t, enc.name()).as_bytes());
    obs.describe(|| json!({"type": TYPES[t], "enc": enc.name(), "spec": SPEC_NAMES[spec as usize], "whole_entries": n, "trailing_bytes": residue, "script": format!("{:?}", script)}));
    Ok(())
}

/// Tables with more than 2^16 entries (integer entry types, so that every entry is distinct and cheap to make): counts
/// and indices that do not fit 16 bits.
fn oracle_big(case: &[u8], obs: &mut Obs) -> Result<(), String> {
    let mut c = Choice::new(case);
    let t = 4 + c.below(3) as usize;
    let enc = ALL_ENC[c.below(4) as usize];
    let use_any = c.bool();
    let es = entsize(t, enc);
    let n = (65536 * (1 + c.below(3)) as i64 + *c.pick(&[-2i64, -1, 0, 1, 2, 3, 255, 256, 257]) + if c.bool() { c.below(3000) as i64 } else { 0 }) as usize;
    let residue = if c.bool() { c.below(es as u64) as usize } else { 0 };
    let mut seed = c.u64() | 1;
    let mask = if es == 8 { u64::MAX } else { (1u64 << (8 * es)) - 1 };
    let mut vals: Vec<u64> = Vec::with_capacity(n);
    let mut bytes: Vec<u8> = Vec::with_capacity(n * es + residue);
    for i in 0..n {
        let v = (verif_model::choice::splitmix(&mut seed) ^ i as u64) & mask;
        vals.push(v);
        if enc.le {
            bytes.extend_from_slice(&v.to_le_bytes()[..es]);
        } else {
            bytes.extend_from_slice(&v.to_be_bytes()[8 - es..]);
        }
    }
    for _ in 0..residue {
        bytes.push(c.u8() | 1);
    }
    let mut script = vec![Op::Len, Op::IsEmpty, Op::Get(n), Op::Get(n - 1), Op::Get(65535), Op::Get(65536), Op::Get(65537), Op::Step(2), Op::Nth(65534), Op::Step(3), Op::Nth(n.saturating_sub(65536 + 20))];
    for _ in 0..c.below(6) {
        script.push(match c.below(5) {
            0 => Op::Get(c.below(n as u64 + 2) as usize),
            1 => Op::Adaptors(65530 + c.below(12) as usize, 1 + c.below(70000) as usize),
            2 => Op::Adaptors(c.below(n as u64 + 2) as usize, 65536),
            3 => Op::Nth(c.below(70000) as usize),
            _ => Op::Get(n - c.below(4) as usize),
        });
    }
    if c.bool() {
        script.push(Op::Iter);
    }
    let class = class_of(enc);
    let spec: u8 = if use_any { specs_for(enc.le)[1] } else { specs_for(enc.le)[0] };
    let r = with_endian!(spec, |e| match t {
        4 => run_script::<_, VersionIndex>(e, class, &bytes, n, &|i, v| v.0 as u64 == vals[i], &script, TYPES[t], obs),
        5 => run_script::<_, u32>(e, class, &bytes, n, &|i, v| *v as u64 == vals[i], &script, TYPES[t], obs),
        _ => run_script::<_, u64>(e, class, &bytes, n, &|i, v| *v == vals[i], &script, TYPES[t], obs),
    });
    r.map_err(|s| format!("{} {} : {}", enc.name(), SPEC_NAMES[spec as usize], s))?;
    obs.label("more_than_65535_entries");
    obs.label_if(residue != 0, "ragged");
    obs.nontrivial();
    obs.key = fnv64(&bytes[..4096]) ^ n as u64 ^ fnv64(format!("{:?}{}{}", script, t, enc.name()).as_bytes());
    obs.describe(|| json!({"type": TYPES[t], "enc": enc.name(), "spec": SPEC_NAMES[spec as usize], "whole_entries": n, "trailing_bytes": residue, "script": format!("{:?}", script)}));
    Ok(())
}

pub fn property() -> Property {
    Property {
        id: "C09",
        level: "exploration",
        rule: "cases are (entry type in {SectionHeader,ProgramHeader,Symbol,Dyn,VersionIndex,u32,u64,Rel,Rela}, class, byte order, fixed or run-time spec, n<=40 entries encoded by the independent ELF writer from generated field values, 0..entsize-1 trailing bytes, an access script of len/is_empty/get(i)/iter/into_iter/interleaved-iterator steps, nth(k) on the advanced iterator, skip/step_by/count/last/fuse on fresh and partly consumed iterators (the relocation iterators also through direct calls on the concrete types), with i in 0..n+2, k*2^32+i and near usize::MAX incl. indices whose byte offset wraps); oracle: len==floor(bytes/ABI entsize), get(i) Ok iff i<n and equal to the encoded entry, iter and into_iter yield exactly n items with item i == get(i) == encoded entry, is_empty==(n==0), independent of order/repetition. Non-trivial: ragged byte length or an access at index len; distinct by (bytes, script) hash. Subcheck big_tables: VersionIndex/u32/u64 tables of k*65536 + {-2..3, 255..257, 0..3000} pairwise distinct entries (k in 1..3), the same oracle with accesses at 65535/65536/65537/n-1/n, nth and skip/step_by distances above 2^16; every case counts as non-trivial.",
        assumptions: &["entry sizes are the ABI sizes from <elf.h> (writer self-check)"],
        subs: vec![Sub::new("tables", oracle, 4096, 1_500_000, 40_000_000), Sub::new("big_tables", oracle_big, 160, 1_500, 60_000).shrink(60)],
        extras: vec![crate::fuzz::c09_choice],
    }
}
