//! C09 — lazy tables are coherent: len, get, iteration and emptiness agree.
use crate::common::*;
use crate::conv::{self, FieldEq};
use crate::with_endian;
use elf::dynamic::Dyn;
use elf::gnu_symver::VersionIndex;
use elf::relocation::{Rel, Rela};
use elf::section::SectionHeader;
use elf::segment::ProgramHeader;
use elf::symbol::Symbol;
use std::fmt::Debug;
use verif_model::elfw as m;
use verif_model::refs;

const TYPES: [&str; 9] = ["SectionHeader", "ProgramHeader", "Symbol", "Dyn", "VersionIndex", "u32", "u64", "Rel", "Rela"];

fn entsize(t: usize, e: Enc) -> usize {
    match t {
        0 => m::shdr_size(e),
        1 => m::phdr_size(e),
        2 => m::sym_size(e),
        3 => m::dyn_size(e),
        4 => 2,
        5 => 4,
        6 => 8,
        7 => m::rel_size(e),
        _ => m::rela_size(e),
    }
}

#[derive(Debug, Clone, Copy)]
enum Op {
    Get(usize),
    Len,
    IsEmpty,
    Iter,
    IntoIter,
    /// advance a long-lived iterator by k items while other accesses happen
    Step(usize),
    /// Iterator::nth(k) on the long-lived (already advanced) iterator
    Nth(usize),
    /// a fresh iterator driven through standard adaptors (skip / step_by / take / last / count)
    Adaptors(usize, usize),
}

fn run_script<E: EndianParse, P: ParseAt + PartialEq + Debug>(e: E, class: Class, bytes: &[u8], n: usize, eq: &dyn Fn(usize, &P) -> bool, script: &[Op], tname: &str, obs: &mut Obs) -> Result<(), String> {
    let ctx = |what: String| format!("{} table over {} bytes (whole entries: {}): {}", tname, bytes.len(), n, what);
    let t = || ParsingTable::<E, P>::new(e, class, bytes);
    let mut long_iter = t().iter();
    let mut long_pos = 0usize;
    for op in script {
        match *op {
            Op::Len => {
                let l = t().len();
                if l != n {
                    return Err(ctx(format!("len() = {}", l)));
                }
            }
            Op::IsEmpty => {
                if t().is_empty() != (n == 0) {
                    return Err(ctx(format!("is_empty() = {}", t().is_empty())));
                }
            }
            Op::Get(i) => {
                let r = t().get(i);
                match r {
                    Ok(v) => {
                        if i >= n {
                            return Err(ctx(format!("get({}) = Ok({:?}) beyond the last whole entry", i, v)));
                        }
                        if !eq(i, &v) {
                            return Err(ctx(format!("get({}) = {:?} differs from the encoded entry", i, v)));
                        }
                        obs.count("get_ok", 1);
                    }
                    Err(er) => {
                        if i < n {
                            return Err(ctx(format!("get({}) = Err({})", i, err_name(&er))));
                        }
                        obs.count("get_err", 1);
                        if i == n {
                            obs.label("get_at_len");
                        }
                    }
                }
            }
            Op::Iter | Op::IntoIter => {
                let it: ParsingIterator<'_, E, P> = if matches!(op, Op::Iter) { t().iter() } else { t().into_iter() };
                let mut k = 0usize;
                for v in it {
                    if k >= n {
                        return Err(ctx(format!("iteration yielded item #{} = {:?} beyond the whole entries", k, v)));
                    }
                    if !eq(k, &v) {
                        return Err(ctx(format!("iteration item #{} = {:?} differs from the encoded entry", k, v)));
                    }
                    let g = t().get(k);
                    match g {
                        Ok(gv) if gv == v => {}
                        other => return Err(ctx(format!("iteration item #{} = {:?} but get({}) = {:?}", k, v, k, other.map_err(|e| err_name(&e))))),
                    }
                    k += 1;
                }
                if k != n {
                    return Err(ctx(format!("iteration yielded {} items", k)));
                }
                obs.count("full_iterations", 1);
            }
            Op::Nth(k) => {
                let got = long_iter.nth(k);
                let want_idx = long_pos.saturating_add(k);
                match got {
                    Some(v) => {
                        if want_idx >= n || !eq(want_idx, &v) {
                            return Err(ctx(format!("nth({}) on an iterator that had yielded {} items returned {:?}, expected item #{}", k, long_pos, v, want_idx)));
                        }
                        long_pos = want_idx + 1;
                    }
                    None => {
                        if want_idx < n {
                            return Err(ctx(format!("nth({}) on an iterator that had yielded {} items returned None, expected item #{}", k, long_pos, want_idx)));
                        }
                        long_pos = n;
                    }
                }
            }
            Op::Adaptors(skip, step) => {
                let step = step.max(1);
                let mut k = 0usize;
                let mut idx = skip;
                for v in t().iter().skip(skip).step_by(step) {
                    if idx >= n || !eq(idx, &v) {
                        return Err(ctx(format!("iter().skip({}).step_by({}) item #{} = {:?} is not entry {}", skip, step, k, v, idx)));
                    }
                    idx += step;
                    k += 1;
                    if k > n + 1 {
                        return Err(ctx(format!("iter().skip({}).step_by({}) yielded more than {} items", skip, step, n + 1)));
                    }
                }
                let want = if skip >= n { 0 } else { (n - skip + step - 1) / step };
                if k != want {
                    return Err(ctx(format!("iter().skip({}).step_by({}) yielded {} items, expected {}", skip, step, k, want)));
                }
                let mut part = t().iter();
                let mut consumed = 0usize;
                for _ in 0..skip.min(n + 1) {
                    if part.next().is_some() {
                        consumed += 1;
                    }
                }
                let rest = part.count();
                if consumed + rest != n {
                    return Err(ctx(format!("count() on an iterator that had yielded {} items returned {}, expected {}", consumed, rest, n - consumed)));
                }
                if t().iter().count() != n {
                    return Err(ctx("iter().count() disagrees with len()".to_string()));
                }
                // Iterator::size_hint's contract: lower <= items still to come <= upper, on fresh and advanced iterators
                let mut part = t().iter();
                let mut left = n;
                loop {
                    let (lo, hi) = part.size_hint();
                    if lo > left || hi.map(|h| h < left).unwrap_or(false) {
                        return Err(ctx(format!("size_hint() = ({}, {:?}) on an iterator that will yield {} more items", lo, hi, left)));
                    }
                    if left == 0 || left + skip < n {
                        break;
                    }
                    if part.next().is_none() {
                        return Err(ctx(format!("iterator ended with {} items still expected", left)));
                    }
                    left -= 1;
                }
                match t().iter().last() {
                    Some(v) => {
                        if n == 0 || !eq(n - 1, &v) {
                            return Err(ctx(format!("iter().last() = {:?} is not the last whole entry", v)));
                        }
                    }
                    None => {
                        if n != 0 {
                            return Err(ctx("iter().last() is None on a non-empty table".to_string()));
                        }
                    }
                }
                let mut part = t().into_iter();
                for _ in 0..skip.min(n) {
                    let _ = part.next();
                }
                if let Some(v) = part.last() {
                    if !eq(n - 1, &v) {
                        return Err(ctx(format!("last() on a partly consumed iterator = {:?} is not the last whole entry", v)));
                    }
                }
                let mut f = t().iter().fuse();
                let mut k = 0usize;
                while f.next().is_some() && k <= n {
                    k += 1;
                }
                if f.next().is_some() || f.next().is_some() {
                    return Err(ctx("iter().fuse() yielded an item after None".to_string()));
                }
            }
            Op::Step(kk) => {
                for _ in 0..kk {
                    match long_iter.next() {
                        Some(v) => {
                            if long_pos >= n || !eq(long_pos, &v) {
                                return Err(ctx(format!("interleaved iterator item #{} = {:?} is wrong", long_pos, v)));
                            }
                            long_pos += 1;
                        }
                        None => {
                            if long_pos != n {
                                return Err(ctx(format!("interleaved iterator ended after {} items", long_pos)));
                            }
                            break;
                        }
                    }
                }
            }
        }
    }
    Ok(())
}

fn oracle(case: &[u8], obs: &mut Obs) -> Result<(), String> {
    let mut c = Choice::new(case);
    let t = c.below(9) as usize;
    let enc = ALL_ENC[c.below(4) as usize];
    let use_any = c.bool();
    let es = entsize(t, enc);
    let n = match c.below(4) {
        0 => c.below(3) as usize,
        _ => c.below(41) as usize,
    };
    let residue = if c.chance(140) { c.below(es as u64) as usize } else { 0 };
    // entries
    let mut w = m::W::new(enc);
    let mut shd = vec![];
    let mut phd = vec![];
    let mut syms = vec![];
    let mut dyns = vec![];
    let mut vals: Vec<u64> = vec![];
    let mut rels = vec![];
    let mut relas = vec![];
    for _ in 0..n {
        match t {
            0 => {
                let x = conv::gen_shdr(&mut c);
                x.write(&mut w);
                shd.push(conv::shdr(&x, enc));
            }
            1 => {
                let x = conv::gen_phdr(&mut c);
                x.write(&mut w);
                phd.push(conv::phdr(&x, enc));
            }
            2 => {
                let x = conv::gen_sym(&mut c);
                x.write(&mut w);
                syms.push(conv::sym(&x, enc));
            }
            3 => {
                let x = conv::gen_dyn(&mut c);
                x.write(&mut w);
                dyns.push(x);
            }
            4 => {
                let v = c.field(16);
                w.u16(v as u16);
                vals.push(v);
            }
            5 => {
                let v = c.field(32);
                w.u32(v as u32);
                vals.push(v);
            }
            6 => {
                let v = c.field(64);
                w.u64(v);
                vals.push(v);
            }
            7 => {
                let x = conv::gen_rel(&mut c);
                x.write(&mut w);
                rels.push(conv::rel(&x, enc));
            }
            _ => {
                let x = conv::gen_rela(&mut c);
                x.write(&mut w);
                relas.push(conv::rela(&x, enc));
            }
        }
    }
    let mut bytes = w.buf;
    if bytes.len() != n * es {
        return Err(format!("harness: writer emitted {} bytes for {} {} entries of ABI size {}", bytes.len(), n, TYPES[t], es));
    }
    for _ in 0..residue {
        bytes.push(c.u8() | 1);
    }
    // access script
    let nops = 3 + c.below(14) as usize;
    let mut script = vec![Op::Len, Op::IsEmpty];
    for _ in 0..nops {
        let op = match c.below(12) {
            10 => Op::Nth(c.below(4) as usize),
            11 => Op::Adaptors(c.below(n as u64 + 2) as usize, 1 + c.below(4) as usize),
            0 => Op::Len,
            1 => Op::IsEmpty,
            2 => Op::Iter,
            3 => Op::IntoIter,
            4 => Op::Step(1 + c.below(4) as usize),
            5 => Op::Get(match c.below(8) {
                0 => usize::MAX,
                1 => usize::MAX / es,
                2 => usize::MAX / es + 1,
                3 => 1usize << 63,
                4 => (1usize << 63) / es * 2,
                5 => (usize::MAX / es + 1).wrapping_add(c.below(n as u64 + 1) as usize),
                6 => usize::MAX - c.below(es as u64 * 2) as usize,
                7 if c.bool() => ((1 + c.below(5) as usize) << 32) | c.below(n as u64 + 1) as usize,
                _ => c.u64() as usize,
            }),
            6 => Op::Get(n),
            7 => Op::Get(n + 1 + c.below(2) as usize),
            _ => Op::Get(c.below(n as u64 + 1) as usize),
        };
        script.push(op);
    }
    script.push(Op::Iter);
    script.push(Op::Get(n));
    // the table at an arbitrary address residue
    let lead = c.below(9) as usize;
    let mut shifted = vec![0xc3u8; lead];
    shifted.extend_from_slice(&bytes);
    let bytes = &shifted[lead..];
    let class = class_of(enc);
    let spec: u8 = if use_any { specs_for(enc.le)[1] } else { specs_for(enc.le)[0] };
    let r = with_endian!(spec, |e| match t {
        0 => run_script::<_, SectionHeader>(e, class, bytes, n, &|i, v| v.field_eq(&shd[i]), &script, TYPES[t], obs),
        1 => run_script::<_, ProgramHeader>(e, class, &bytes, n, &|i, v| v.field_eq(&phd[i]), &script, TYPES[t], obs),
        2 => run_script::<_, Symbol>(e, class, &bytes, n, &|i, v| v.field_eq(&syms[i]), &script, TYPES[t], obs),
        3 => run_script::<_, Dyn>(e, class, &bytes, n, &|i, v| conv::dyn_eq(v, &dyns[i], enc), &script, TYPES[t], obs),
        4 => run_script::<_, VersionIndex>(e, class, &bytes, n, &|i, v| v.0 as u64 == vals[i], &script, TYPES[t], obs),
        5 => run_script::<_, u32>(e, class, &bytes, n, &|i, v| *v as u64 == vals[i], &script, TYPES[t], obs),
        6 => run_script::<_, u64>(e, class, &bytes, n, &|i, v| *v == vals[i], &script, TYPES[t], obs),
        7 => run_script::<_, Rel>(e, class, &bytes, n, &|i, v| v.field_eq(&rels[i]), &script, TYPES[t], obs),
        _ => run_script::<_, Rela>(e, class, &bytes, n, &|i, v| v.field_eq(&relas[i]), &script, TYPES[t], obs),
    });
    r.map_err(|s| format!("{} {} : {}", enc.name(), SPEC_NAMES[spec as usize], s))?;
    // the relocation iterators once more through DIRECT calls on the concrete types (run_script is generic, so an
    // inherent method that shadows a trait method would not be seen there)
    if t == 7 || t == 8 {
        let ks = [c.below(n as u64 + 2) as usize, n, usize::MAX, usize::MAX / es, (usize::MAX / es).wrapping_add(2), 1usize << 61];
        let consumed = c.below(n as u64 + 1) as usize;
        let r2: Result<(), String> = with_endian!(spec, |e| (|| -> Result<(), String> {
            for k in ks {
                let want = consumed.checked_add(k).filter(|i| *i < n);
                if t == 7 {
                    let mut it = elf::relocation::RelIterator::new(e, class, bytes);
                    for _ in 0..consumed {
                        it.next();
                    }
                    let got = it.nth(k);
                    if got.is_some() != want.is_some() || matches!((&got, want), (Some(g), Some(i)) if !g.field_eq(&rels[i])) {
                        return Err(format!("RelIterator over {} whole entries: nth({}) after {} items returned {:?}, expected entry {:?}", n, k, consumed, got, want));
                    }
                    let it = elf::relocation::RelIterator::new(e, class, bytes);
                    if it.count() != n || elf::relocation::RelIterator::new(e, class, bytes).last().map(|g| g.field_eq(&rels[n - 1])) == Some(false) {
                        return Err(format!("RelIterator over {} whole entries: count()/last() disagree with the table", n));
                    }
                } else {
                    let mut it = elf::relocation::RelaIterator::new(e, class, bytes);
                    for _ in 0..consumed {
                        it.next();
                    }
                    let got = it.nth(k);
                    if got.is_some() != want.is_some() || matches!((&got, want), (Some(g), Some(i)) if !g.field_eq(&relas[i])) {
                        return Err(format!("RelaIterator over {} whole entries: nth({}) after {} items returned {:?}, expected entry {:?}", n, k, consumed, got, want));
                    }
                    let it = elf::relocation::RelaIterator::new(e, class, bytes);
                    if it.count() != n || elf::relocation::RelaIterator::new(e, class, bytes).last().map(|g| g.field_eq(&relas[n - 1])) == Some(false) {
                        return Err(format!("RelaIterator over {} whole entries: count()/last() disagree with the table", n));
                    }
                }
            }
            Ok(())
        })());
        r2.map_err(|s| format!("{} {} : {}", enc.name(), SPEC_NAMES[spec as usize], s))?;
    }
    obs.label_if(residue != 0, "ragged");
    obs.label_if(n == 0, "no_whole_entry");
    obs.label(TYPES[t]);
    if residue != 0 || script.iter().any(|o| matches!(o, Op::Get(i) if *i == n)) {
        obs.nontrivial();
    }
    obs.key = fnv64(&bytes) ^ fnv64(format!("{:?}{}{}", script, t, enc.name()).as_bytes());
    obs.describe(|| json!({"type": TYPES[t], "enc": enc.name(), "spec": SPEC_NAMES[spec as usize], "whole_entries": n, "trailing_bytes": residue, "script": format!("{:?}", script)}));
    Ok(())
}

/// Tables with more than 2^16 entries (integer entry types, so that every entry is distinct and cheap to make): counts
/// and indices that do not fit 16 bits.
fn oracle_big(case: &[u8], obs: &mut Obs) -> Result<(), String> {
    let mut c = Choice::new(case);
    let t = 4 + c.below(3) as usize;
    let enc = ALL_ENC[c.below(4) as usize];
    let use_any = c.bool();
    let es = entsize(t, enc);
    let n = (65536 * (1 + c.below(3)) as i64 + *c.pick(&[-2i64, -1, 0, 1, 2, 3, 255, 256, 257]) + if c.bool() { c.below(3000) as i64 } else { 0 }) as usize;
    let residue = if c.bool() { c.below(es as u64) as usize } else { 0 };
    let mut seed = c.u64() | 1;
    let mask = if es == 8 { u64::MAX } else { (1u64 << (8 * es)) - 1 };
    let mut vals: Vec<u64> = Vec::with_capacity(n);
    let mut bytes: Vec<u8> = Vec::with_capacity(n * es + residue);
    for i in 0..n {
        let v = (verif_model::choice::splitmix(&mut seed) ^ i as u64) & mask;
        vals.push(v);
        if enc.le {
            bytes.extend_from_slice(&v.to_le_bytes()[..es]);
        } else {
            bytes.extend_from_slice(&v.to_be_bytes()[8 - es..]);
        }
    }
    for _ in 0..residue {
        bytes.push(c.u8() | 1);
    }
    let mut script = vec![Op::Len, Op::IsEmpty, Op::Get(n), Op::Get(n - 1), Op::Get(65535), Op::Get(65536), Op::Get(65537), Op::Step(2), Op::Nth(65534), Op::Step(3), Op::Nth(n.saturating_sub(65536 + 20))];
    for _ in 0..c.below(6) {
        script.push(match c.below(5) {
            0 => Op::Get(c.below(n as u64 + 2) as usize),
            1 => Op::Adaptors(65530 + c.below(12) as usize, 1 + c.below(70000) as usize),
            2 => Op::Adaptors(c.below(n as u64 + 2) as usize, 65536),
            3 => Op::Nth(c.below(70000) as usize),
            _ => Op::Get(n - c.below(4) as usize),
        });
    }
    if c.bool() {
        script.push(Op::Iter);
    }
    let class = class_of(enc);
    let spec: u8 = if use_any { specs_for(enc.le)[1] } else { specs_for(enc.le)[0] };
    let r = with_endian!(spec, |e| match t {
        4 => run_script::<_, VersionIndex>(e, class, &bytes, n, &|i, v| v.0 as u64 == vals[i], &script, TYPES[t], obs),
        5 => run_script::<_, u32>(e, class, &bytes, n, &|i, v| *v as u64 == vals[i], &script, TYPES[t], obs),
        _ => run_script::<_, u64>(e, class, &bytes, n, &|i, v| *v == vals[i], &script, TYPES[t], obs),
    });
    r.map_err(|s| format!("{} {} : {}", enc.name(), SPEC_NAMES[spec as usize], s))?;
    obs.label("more_than_65535_entries");
    obs.label_if(residue != 0, "ragged");
    obs.nontrivial();
    obs.key = fnv64(&bytes[..4096]) ^ n as u64 ^ fnv64(format!("{:?}{}{}", script, t, enc.name()).as_bytes());
    obs.describe(|| json!({"type": TYPES[t], "enc": enc.name(), "spec": SPEC_NAMES[spec as usize], "whole_entries": n, "trailing_bytes": residue, "script": format!("{:?}", script)}));
    Ok(())
}

/// The contract on a table as handed out by the file-level accessors (its bytes sit in the middle of a file).
fn contract<E: EndianParse, P: ParseAt + PartialEq + Debug>(t: &ParsingTable<'_, E, P>, what: &str, obs: &mut Obs) -> Result<(), String> {
    let n = t.len();
    if t.is_empty() != (n == 0) {
        return Err(format!("{}: len() = {} but is_empty() = {}", what, n, t.is_empty()));
    }
    let items: Vec<P> = t.iter().take(n + 2).collect();
    if items.len() != n {
        return Err(format!("{}: len() = {} but iteration yields {} items", what, n, items.len().min(n + 1)));
    }
    for (i, it) in items.iter().enumerate().take(3000) {
        match t.get(i) {
            Ok(g) if g == *it => {}
            other => return Err(format!("{}: item #{} of the iteration is {:?} but get({}) = {:?}", what, i, it, i, other.map_err(|e| err_name(&e)))),
        }
    }
    for i in [n, n + 1, n + 2, n + 7, (1usize << 32) | n, usize::MAX / 2, usize::MAX] {
        if let Ok(g) = t.get(i) {
            return Err(format!("{}: len() = {} but get({}) = Ok({:?})", what, n, i, g));
        }
    }
    if t.iter().count() != n || t.iter().last().as_ref() != items.last() {
        return Err(format!("{}: count()/last() disagree with the iteration of {} items", what, n));
    }
    obs.count("file_tables_checked", 1);
    obs.label_if(n > 0, "nonempty_table_from_a_file");
    Ok(())
}

/// Reference decoding of the whole Rel/Rela entries in `b`: (r_offset, r_sym, r_type, r_addend).
fn ref_relocs(c64: bool, le: bool, b: &[u8], rela: bool) -> Vec<(u64, u64, u64, i64)> {
    let w = if c64 { 8 } else { 4 };
    let es = if rela { 3 * w } else { 2 * w };
    let rd = |off: usize| -> u64 { if c64 { refs::rd_u64(le, b, off).unwrap() } else { refs::rd_u32(le, b, off).unwrap() as u64 } };
    (0..b.len() / es)
        .map(|i| {
            let o = i * es;
            let info = rd(o + w);
            let (sym, ty) = if c64 { (info >> 32, info & 0xffff_ffff) } else { (info >> 8, info & 0xff) };
            let add = if !rela { 0 } else if c64 { rd(o + 2 * w) as i64 } else { rd(o + 2 * w) as u32 as i32 as i64 };
            (rd(o), sym, ty, add)
        })
        .collect()
}

/// Tables and relocation iterators as the file-level accessors hand them out: ElfBytes (tables that are windows of a
/// larger buffer) and ElfStream over a reader with short reads and interruptions.
fn oracle_in_file(case: &[u8], obs: &mut Obs) -> Result<(), String> {
    use verif_model::inputs::{self, InputOpts};
    use verif_model::io::Reader;
    let mut c = Choice::new(case);
    let mut o = InputOpts::default();
    o.weights = [75, 22, 3];
    let inp = inputs::gen_input(&mut c, &o);
    let data = &inp.data;
    let e = AnyEndian::Little;
    let f = match open_as(e, data) {
        Ok(f) => f,
        Err(_) => {
            obs.label("rejected");
            return Ok(());
        }
    };
    let ctx = format!("{}-byte {} input ({})", data.len(), inp.mode, inp.note);
    let (c64, le) = (data[4] == 2, data[5] == 1);
    let r: Result<(), String> = (|| {
        if let Some(t) = f.section_headers() {
            contract(&t, "ElfBytes::section_headers()", obs)?;
        }
        if let Some(t) = f.segments() {
            contract(&t, "ElfBytes::segments()", obs)?;
        }
        if let Ok(Some((t, _))) = f.symbol_table() {
            contract(&t, "ElfBytes::symbol_table()", obs)?;
        }
        if let Ok(Some((t, _))) = f.dynamic_symbol_table() {
            contract(&t, "ElfBytes::dynamic_symbol_table()", obs)?;
        }
        if let Ok(Some(t)) = f.dynamic() {
            contract(&t, "ElfBytes::dynamic()", obs)?;
        }
        if let Ok(cd) = f.find_common_data() {
            if let Some(t) = &cd.symtab {
                contract(t, "find_common_data().symtab", obs)?;
            }
            if let Some(t) = &cd.dynsyms {
                contract(t, "find_common_data().dynsyms", obs)?;
            }
            if let Some(t) = &cd.dynamic {
                contract(t, "find_common_data().dynamic", obs)?;
            }
        }
        let (chunks, intr) = crate::stream::gen_reader_behaviour(&mut c, 1);
        let reader = Reader::with(data.clone(), chunks.clone(), intr, vec![]);
        let mut fs = match open_stream_as(e, reader) {
            Ok(s) => s,
            Err(er) => return Err(format!("the slice opens but open_stream (reader chunks {:?} interrupt_every {}) fails with {}", chunks, intr, err_name(&er))),
        };
        if let Ok(Some((t, _))) = fs.symbol_table() {
            contract(&t, "ElfStream::symbol_table()", obs)?;
        }
        if let Ok(Some((t, _))) = fs.dynamic_symbol_table() {
            contract(&t, "ElfStream::dynamic_symbol_table()", obs)?;
        }
        if let Ok(Some(t)) = fs.dynamic() {
            contract(&t, "ElfStream::dynamic()", obs)?;
        }
        let Some(shdrs) = f.section_headers() else { return Ok(()) };
        let n = shdrs.len();
        let first = if n > 64 { c.below(n as u64 - 63) as usize } else { 0 };
        for i in first..n.min(first + 64) {
            let Ok(h) = shdrs.get(i) else { continue };
            if h.sh_type != elf::abi::SHT_REL && h.sh_type != elf::abi::SHT_RELA {
                continue;
            }
            let rela = h.sh_type == elf::abi::SHT_RELA;
            let Ok((buf, _)) = f.section_data(&h) else { continue };
            let want = ref_relocs(c64, le, buf, rela);
            let cap = buf.len() + 2;
            let got: Result<Vec<(u64, u64, u64, i64)>, ParseError> = if rela { f.section_data_as_relas(&h).map(|it| it.take(cap).map(|r| (r.r_offset, r.r_sym as u64, r.r_type as u64, r.r_addend)).collect()) } else { f.section_data_as_rels(&h).map(|it| it.take(cap).map(|r| (r.r_offset, r.r_sym as u64, r.r_type as u64, 0)).collect()) };
            let Ok(got) = got else { continue };
            if got != want {
                return Err(format!("section {} ({} of {} bytes) through ElfBytes yields {} entries {:?}; its whole entries are {:?}", i, if rela { "SHT_RELA" } else { "SHT_REL" }, buf.len(), got.len().min(cap - 1), &got[..got.len().min(6)], &want[..want.len().min(6)]));
            }
            obs.count("relocation_sections_checked", 1);
            if h.sh_flags & 0x800 != 0 {
                continue;
            }
            // (in half of the cases after another range around the section was read through the same handle)
            if c.u8() >= 128 {
                let a = h.sh_offset - c.below(h.sh_offset.min(24) + 1);
                let b = match c.below(3) {
                    0 => h.sh_offset + h.sh_size,
                    1 => (h.sh_offset + h.sh_size + c.below(24)).min(data.len() as u64),
                    _ => a + c.below(h.sh_offset + h.sh_size - a + 1),
                };
                let fab = SectionHeader { sh_name: 0, sh_type: 1, sh_flags: 0, sh_addr: 0, sh_offset: a, sh_size: b.max(a) - a, sh_link: 0, sh_info: 0, sh_addralign: 1, sh_entsize: 0 };
                let _ = fs.section_data(&fab);
                obs.label("another_range_read_before_the_relocations");
            }
            let gs: Result<Vec<(u64, u64, u64, i64)>, ParseError> = if rela { fs.section_data_as_relas(&h).map(|it| it.take(cap).map(|r| (r.r_offset, r.r_sym as u64, r.r_type as u64, r.r_addend)).collect()) } else { fs.section_data_as_rels(&h).map(|it| it.take(cap).map(|r| (r.r_offset, r.r_sym as u64, r.r_type as u64, 0)).collect()) };
            match gs {
                Ok(g) if g == want => {
                    obs.count("relocation_sections_checked_through_a_stream", 1);
                    obs.label_if(!chunks.is_empty() && !want.is_empty(), "relocations_through_a_short_reading_stream");
                }
                Ok(g) => return Err(format!("section {} ({} of {} bytes) through ElfStream (reader chunks {:?} interrupt_every {}) yields {} entries {:?}; its whole entries are {:?}", i, if rela { "SHT_RELA" } else { "SHT_REL" }, buf.len(), chunks, intr, g.len().min(cap - 1), &g[..g.len().min(6)], &want[..want.len().min(6)])),
                Err(er) => return Err(format!("section {} through ElfStream fails with {} although ElfBytes yields its {} whole entries", i, err_name(&er), want.len())),
            }
        }
        Ok(())
    })();
    r.map_err(|m| format!("{}: {}", ctx, m))?;
    obs.label(inp.mode);
    obs.nontrivial();
    obs.key = fnv64(data);
    obs.describe(|| json!({"input": ctx}));
    Ok(())
}

/// A buffer of 2^32 + 64 bytes (zero pages, mapped lazily) with distinct bytes around byte 2^32: tables whose entries lie
/// at byte offsets at and beyond 2^32 (both classes: the class says how entries are encoded, not how large a caller's
/// slice may be).
fn big_buffer() -> &'static [u8] {
    static B: std::sync::OnceLock<Vec<u8>> = std::sync::OnceLock::new();
    B.get_or_init(|| {
        let mut v = vec![0u8; (1usize << 32) + 64];
        let base = (1usize << 32) - 64;
        for i in 0..128 {
            v[base + i] = (i as u8).wrapping_mul(13).wrapping_add(5) | 1;
        }
        v
    })
}

fn big_one<E: EndianParse, P: ParseAt + PartialEq + Debug>(e: E, class: Class, delta: usize, tname: &str, obs: &mut Obs) -> Result<(), String> {
    let buf = big_buffer();
    let es = P::size_for(class);
    let t = ParsingTable::<E, P>::new(e, class, buf);
    let n = buf.len() / es;
    if t.len() != n || t.is_empty() {
        return Err(format!("{} table over {} bytes: len() = {}, is_empty() = {}; whole entries: {}", tname, buf.len(), t.len(), t.is_empty(), n));
    }
    // the entries whose bytes straddle or follow byte 2^32, and the last ones
    let first = ((1usize << 32) - 64) / es;
    let i = (first + delta).min(n + 2);
    let got = t.get(i);
    let mut off = i.wrapping_mul(es);
    let want = if i < n { P::parse_at(e, class, &mut off, buf).ok() } else { None };
    match (got, want) {
        (Ok(g), Some(w)) if g == w => obs.count("entries_beyond_4GiB_compared", 1),
        (Err(_), None) => obs.count("get_beyond_len_refused", 1),
        (g, w) => return Err(format!("{} table ({:?}) over a {}-byte buffer with {} whole entries: get({}) [byte offset {}] = {:?}; parse_at there gives {:?}", tname, class, buf.len(), n, i, i.wrapping_mul(es), g.map_err(|e| err_name(&e)), w)),
    }
    Ok(())
}

/// plain encoding: [type, enc, delta]
fn oracle_big_buffer(case: &[u8], obs: &mut Obs) -> Result<(), String> {
    if case.len() < 3 {
        return Ok(());
    }
    let t = case[0] as usize % 9;
    let enc = ALL_ENC[case[1] as usize % 4];
    let delta = case[2] as usize;
    let class = class_of(enc);
    let spec = specs_for(enc.le)[(case[1] as usize / 4) % 2];
    with_endian!(spec, |e| match t {
        0 => big_one::<_, SectionHeader>(e, class, delta, TYPES[t], obs),
        1 => big_one::<_, ProgramHeader>(e, class, delta, TYPES[t], obs),
        2 => big_one::<_, Symbol>(e, class, delta, TYPES[t], obs),
        3 => big_one::<_, Dyn>(e, class, delta, TYPES[t], obs),
        4 => big_one::<_, VersionIndex>(e, class, delta, TYPES[t], obs),
        5 => big_one::<_, u32>(e, class, delta, TYPES[t], obs),
        6 => big_one::<_, u64>(e, class, delta, TYPES[t], obs),
        7 => big_one::<_, Rel>(e, class, delta, TYPES[t], obs),
        _ => big_one::<_, Rela>(e, class, delta, TYPES[t], obs),
    })?;
    obs.nontrivial();
    obs.describe(|| json!({"type": TYPES[t], "enc": enc.name(), "index_delta": delta}));
    Ok(())
}

fn enum_big_buffer(shard: usize, _n: usize, _t: Tier, emit: &mut dyn FnMut(&[u8]) -> bool) {
    if shard != 0 {
        return;
    }
    for t in 0..9u8 {
        for e in 0..8u8 {
            for d in 0..70u8 {
                if !emit(&[t, e, d]) {
                    return;
                }
            }
        }
    }
}

pub fn property() -> Property {
    Property {
        id: "C09",
        level: "exploration",
        rule: "cases are (entry type in {SectionHeader,ProgramHeader,Symbol,Dyn,VersionIndex,u32,u64,Rel,Rela}, class, byte order, fixed or run-time spec, n<=40 entries encoded by the independent ELF writer from generated field values, 0..entsize-1 trailing bytes, an access script of len/is_empty/get(i)/iter/into_iter/interleaved-iterator steps, nth(k) on the advanced iterator, skip/step_by/count/last/fuse on fresh and partly consumed iterators (the relocation iterators also through direct calls on the concrete types), with i in 0..n+2, k*2^32+i and near usize::MAX incl. indices whose byte offset wraps); oracle: len==floor(bytes/ABI entsize), get(i) Ok iff i<n and equal to the encoded entry, iter and into_iter yield exactly n items with item i == get(i) == encoded entry, is_empty==(n==0), independent of order/repetition. Non-trivial: ragged byte length or an access at index len; distinct by (bytes, script) hash. Subcheck big_tables: VersionIndex/u32/u64 tables of k*65536 + {-2..3, 255..257, 0..3000} pairwise distinct entries (k in 1..3), the same oracle with accesses at 65535/65536/65537/n-1/n, nth and skip/step_by distances above 2^16; every case counts as non-trivial. Subcheck in_file: the tables the file-level accessors hand out (ElfBytes section_headers/segments/symbol_table/dynamic_symbol_table/dynamic/find_common_data, i.e. tables whose bytes sit in the middle of a larger buffer; ElfStream symbol_table/dynamic_symbol_table/dynamic) on the three input modes: len/is_empty/iteration/get(i)/count/last agree and get(len), get(len+1..), get(2^32|len), get(usize::MAX) fail; every SHT_REL/SHT_RELA section through ElfBytes and through ElfStream over a reader with short reads and interruptions (half of them after another range around the section was read through the same handle) yields exactly the reference decoding of its whole entries (bounded by take(bytes+2)). Subcheck beyond_4gib: every entry type x class x order x fixed/run-time spec as a table over a 2^32+64 byte buffer (lazily mapped): len, and get(i) for the 70 entries from byte 2^32-64 on (up to and beyond the last whole entry) against parse_at at that offset.",
        assumptions: &["entry sizes are the ABI sizes from <elf.h> (writer self-check)"],
        subs: vec![Sub::new("tables", oracle, 4096, 1_500_000, 40_000_000), Sub::new("big_tables", oracle_big, 160, 1_500, 60_000).shrink(60), Sub::new("in_file", oracle_in_file, 2400, 60_000, 3_000_000).shrink(1500), Sub::enumerated("beyond_4gib", oracle_big_buffer, enum_big_buffer, false)],
        extras: vec![crate::fuzz::c09_choice],
    }
}
