//! Helpers shared by the oracle modules.
pub use elf::endian::{AnyEndian, BigEndian, EndianParse, LittleEndian, NativeEndian};
pub use elf::file::Class;
pub use elf::parse::{ParseAt, ParseError, ParsingIterator, ParsingTable};
pub use serde_json::{json, Value};
pub use verif_model::choice::{fnv64, hex, Choice, BOUNDARY};
pub use verif_model::elfw::{self, Enc, ALL_ENC};
pub use verif_model::run::{guard, Obs, Property, Sub, Tier};

/// spec index: 0 LittleEndian, 1 BigEndian, 2 AnyEndian::Little, 3 AnyEndian::Big, 4 NativeEndian
#[macro_export]
macro_rules! with_endian {
    ($spec:expr, |$e:ident| $body:expr) => {
        match $spec {
            0 => {
                let $e = elf::endian::LittleEndian;
                $body
            }
            1 => {
                let $e = elf::endian::BigEndian;
                $body
            }
            2 => {
                let $e = elf::endian::AnyEndian::Little;
                $body
            }
            3 => {
                let $e = elf::endian::AnyEndian::Big;
                $body
            }
            _ => {
                let $e = elf::endian::NativeEndian;
                $body
            }
        }
    };
}

pub const SPEC_NAMES: [&str; 5] = ["LittleEndian", "BigEndian", "AnyEndian::Little", "AnyEndian::Big", "NativeEndian"];

pub fn spec_is_little(spec: u8) -> bool {
    match spec {
        0 | 2 => true,
        1 | 3 => false,
        _ => cfg!(target_endian = "little"),
    }
}

/// spec index (0..4) that reads `enc`'s byte order, chosen among the fixed and the run-time specs
pub fn specs_for(le: bool) -> [u8; 2] {
    if le {
        [0, 2]
    } else {
        [1, 3]
    }
}

pub fn class_of(enc: Enc) -> Class {
    if enc.c64 {
        Class::ELF64
    } else {
        Class::ELF32
    }
}

pub fn any_of(enc: Enc) -> AnyEndian {
    if enc.le {
        AnyEndian::Little
    } else {
        AnyEndian::Big
    }
}

pub fn err_name(e: &ParseError) -> &'static str {
    match e {
        ParseError::BadMagic(_) => "BadMagic",
        ParseError::UnsupportedElfClass(_) => "UnsupportedElfClass",
        ParseError::UnsupportedElfEndianness(_) => "UnsupportedElfEndianness",
        ParseError::UnsupportedVersion(_) => "UnsupportedVersion",
        ParseError::BadOffset(_) => "BadOffset",
        ParseError::StringTableMissingNul(_) => "StringTableMissingNul",
        ParseError::BadEntsize(_) => "BadEntsize",
        ParseError::UnexpectedSectionType(_) => "UnexpectedSectionType",
        ParseError::UnexpectedSegmentType(_) => "UnexpectedSegmentType",
        ParseError::UnexpectedAlignment(_) => "UnexpectedAlignment",
        ParseError::SliceReadError(_) => "SliceReadError",
        ParseError::IntegerOverflow => "IntegerOverflow",
        ParseError::Utf8Error(_) => "Utf8Error",
        ParseError::TryFromSliceError(_) => "TryFromSliceError",
        ParseError::TryFromIntError(_) => "TryFromIntError",
        ParseError::IOError(_) => "IOError",
    }
}

pub fn ok_err<T>(r: &Result<T, ParseError>) -> String {
    match r {
        Ok(_) => "Ok".to_string(),
        Err(e) => format!("Err({})", err_name(e)),
    }
}

/// Open a slice with the byte-order spec given by the (zero-sized or run-time) value `_e`.
pub fn open_as<'d, E: EndianParse>(_e: E, data: &'d [u8]) -> Result<elf::ElfBytes<'d, E>, ParseError> {
    elf::ElfBytes::<E>::minimal_parse(data)
}
pub fn open_stream_as<E: EndianParse, S: std::io::Read + std::io::Seek>(_e: E, s: S) -> Result<elf::ElfStream<E, S>, ParseError> {
    elf::ElfStream::<E, S>::open_stream(s)
}
