//! C14 — note iteration yields exactly the notes laid out in the section/segment.
use crate::common::*;
use crate::with_endian;
use elf::note::{Note, NoteIterator};
use verif_model::elfw as m;
use verif_model::filegen::{self, FileSpec, Seg};
use verif_model::refs;

fn compare<'a, E: EndianParse>(mk: impl Fn() -> NoteIterator<'a, E>, data: &'a [u8], le: bool, align: u64, obs: &mut Obs, via: &str) -> Result<(usize, bool), String> {
    let it = mk();
    let (want, ambiguous) = refs::walk_notes(le, align, data);
    let ctx = |k: usize| format!("{} align={} data[{}]={} : item #{}", via, align, data.len(), hex(&data[..data.len().min(96)]), k);
    let base = data.as_ptr() as usize;
    let mut k = 0usize;
    let mut excluded = false;
    for got in it {
        if k >= want.len() {
            if ambiguous {
                excluded = true;
                break;
            }
            return Err(format!("{}: iterator yielded {:?} but the reference walk ended after {} records", ctx(k), got, want.len()));
        }
        let r = &want[k];
        let name = &data[r.name.0..r.name.1];
        let desc = &data[r.desc.0..r.desc.1];
        let in_place = |s: &[u8], range: (usize, usize)| s.len() == range.1 - range.0 && (s.is_empty() || s.as_ptr() as usize == base + range.0);
        let gnu = name == b"GNU\0";
        match got {
            Note::GnuAbiTag(t) => {
                if !(gnu && r.n_type == 1) {
                    return Err(format!("{}: typed ABI-tag note returned for name {:?} type {}", ctx(k), name, r.n_type));
                }
                let f = |i: usize| refs::rd_u32(le, desc, 4 * i);
                if desc.len() < 16 || Some(t.os) != f(0) || Some(t.major) != f(1) || Some(t.minor) != f(2) || Some(t.subminor) != f(3) {
                    return Err(format!("{}: ABI tag {:?} does not match descriptor {}", ctx(k), t, hex(desc)));
                }
                obs.count("abi_tag", 1);
            }
            Note::GnuBuildId(b) => {
                if !(gnu && r.n_type == 3) {
                    return Err(format!("{}: typed build-id note returned for name {:?} type {}", ctx(k), name, r.n_type));
                }
                if b.0 != desc || !in_place(b.0, r.desc) {
                    return Err(format!("{}: build-id {} is not the descriptor bytes {} at {:?}", ctx(k), hex(b.0), hex(desc), r.desc));
                }
                obs.count("build_id", 1);
            }
            Note::Unknown(a) => {
                // a "GNU" type-1 record with a descriptor shorter than 16 bytes is outside the statement: yielding it
                // untyped with its exact bytes (checked below) is as faithful as ending the iteration there
                let short_tag = gnu && r.n_type == 1 && desc.len() < 16;
                if gnu && (r.n_type == 1 || r.n_type == 3) && !short_tag {
                    return Err(format!("{}: GNU note of type {} returned untyped", ctx(k), r.n_type));
                }
                if a.n_type != r.n_type as u64 || a.name != name || a.desc != desc || !in_place(a.name, r.name) || !in_place(a.desc, r.desc) {
                    return Err(format!("{}: got type {} name {} desc {}; reference type {} name {:?}={} desc {:?}={}", ctx(k), a.n_type, hex(a.name), hex(a.desc), r.n_type, r.name, hex(name), r.desc, hex(desc)));
                }
                let want_str = std::str::from_utf8(name).ok().map(|s| s.trim_end_matches('\0'));
                match (a.name_str(), want_str) {
                    (Ok(g), Some(w)) if g == w => {}
                    (Err(_), None) => obs.count("non_utf8_name", 1),
                    (g, w) => return Err(format!("{}: name_str() = {:?}, expected {:?}", ctx(k), g.map_err(|e| err_name(&e)), w)),
                }
            }
        }
        k += 1;
    }
    if !excluded && k < want.len() {
        let r = &want[k];
        let name = &data[r.name.0..r.name.1];
        // a "GNU" ABI-tag note whose descriptor is not 16 bytes is outside the statement's domain
        if name == b"GNU\0" && r.n_type == 1 && r.desc.1 - r.desc.0 < 16 {
            excluded = true;
        } else {
            return Err(format!("{}: iterator stopped after {} items, the reference walk has {} records (next: type {} name {:?} desc {:?})", ctx(k), k, want.len(), r.n_type, r.name, r.desc));
        }
    }
    if !excluded && !ambiguous {
        // the same sequence through the std iterator adaptors (an overridden nth/count/last/skip must agree with
        // repeated next())
        let all: Vec<Note<'a>> = mk().collect();
        let n = all.len();
        let fail = |what: String| Err(format!("{}: {}", ctx(0), what));
        for j in [0usize, 1, 2, n.saturating_sub(1), n, n + 1] {
            if mk().nth(j).as_ref() != all.get(j) {
                return fail(format!("nth({}) on a fresh iterator returned {:?}; repeated next() gives {:?}", j, mk().nth(j), all.get(j)));
            }
            if mk().skip(j).next().as_ref() != all.get(j) {
                return fail(format!("skip({}).next() returned {:?}; repeated next() gives {:?}", j, mk().skip(j).next(), all.get(j)));
            }
            let mut it = mk();
            let first = it.next();
            // (the iterator is not fused: it is not polled again once it has returned None)
            if first.as_ref() != all.first() || (first.is_some() && it.nth(j).as_ref() != all.get(j + 1)) {
                return fail(format!("next() then nth({}) does not give item #{}", j, j + 1));
            }
            let mut it = mk();
            for _ in 0..j.min(n) {
                it.next();
            }
            if it.count() != n - j.min(n) {
                return fail(format!("count() after {} items is not {}", j.min(n), n - j.min(n)));
            }
        }
        if mk().count() != n || mk().last().as_ref() != all.last() {
            return fail(format!("count() = {} / last() = {:?}; repeated next() gives {} items, last {:?}", mk().count(), mk().last(), n, all.last()));
        }
        let stepped: Vec<Note<'a>> = mk().step_by(2).collect();
        if stepped.len() != (n + 1) / 2 || stepped.iter().enumerate().any(|(i, x)| Some(x) != all.get(2 * i)) {
            return fail("step_by(2) does not give every second item".to_string());
        }
        if mk().size_hint().0 > n || mk().size_hint().1.map(|u| u < n).unwrap_or(false) {
            return fail(format!("size_hint() = {:?} but the iterator yields {} items", mk().size_hint(), n));
        }
        obs.count("adaptor_checks", 1);
    }
    Ok((k, excluded || ambiguous))
}

type Digest = (u8, u64, Vec<u8>, Vec<u8>);

fn digest(n: Note<'_>) -> Digest {
    match n {
        Note::GnuAbiTag(t) => (1, 1, vec![], [t.os, t.major, t.minor, t.subminor].iter().flat_map(|v| v.to_le_bytes()).collect()),
        Note::GnuBuildId(b) => (3, 3, vec![], b.0.to_vec()),
        Note::Unknown(a) => (0, a.n_type, a.name.to_vec(), a.desc.to_vec()),
    }
}

/// The same section / segment through ElfStream over an instrumented reader (short reads, interruptions, any initial
/// cursor; in half of the cases one transient I/O failure while the note bytes are loaded, after which the call is
/// repeated): the first successful answer, and the one after it, are the notes the slice parser yields.
fn via_stream<E: EndianParse>(e: E, bytes: &[u8], sec: Option<usize>, c: &mut Choice, obs: &mut Obs) -> Result<(), String> {
    use verif_model::io::{Fault, FaultKind, Reader};
    let what = if sec.is_some() { "section_data_as_notes" } else { "segment_data_as_notes" };
    let file = open_as(e, bytes).map_err(|er| format!("harness: generated file does not open: {}", err_name(&er)))?;
    let want: Vec<Digest> = match sec {
        Some(i) => {
            let sh = file.section_headers().ok_or("no section headers")?.get(i).map_err(|er| format!("shdr {}", err_name(&er)))?;
            file.section_data_as_notes(&sh).map_err(|er| format!("section_data_as_notes failed with {}", err_name(&er)))?.map(digest).collect()
        }
        None => {
            let ph = file.segments().ok_or("no segments")?.get(0).map_err(|er| format!("phdr {}", err_name(&er)))?;
            file.segment_data_as_notes(&ph).map_err(|er| format!("segment_data_as_notes failed with {}", err_name(&er)))?.map(digest).collect()
        }
    };
    let (chunks, intr) = crate::stream::gen_reader_behaviour(c, 1);
    let pos0 = crate::stream::gen_initial_pos(c, bytes.len());
    let reader = Reader::with(bytes.to_vec(), chunks.clone(), intr, vec![]).at_position(pos0);
    let mut s = open_stream_as(e, reader.clone()).map_err(|er| format!("harness: generated file does not open as a stream: {}", err_name(&er)))?;
    // in half of the cases other byte ranges around the notes were read through the same handle before (enclosing,
    // sharing the start, sharing the end): what is handed out for the notes must not depend on it
    let (lo, hi) = match sec {
        Some(i) => (s.section_headers()[i].sh_offset, s.section_headers()[i].sh_offset.saturating_add(s.section_headers()[i].sh_size)),
        None => (s.segments()[0].p_offset, s.segments()[0].p_offset.saturating_add(s.segments()[0].p_filesz)),
    };
    let mut before = vec![];
    if c.u8() >= 128 && hi <= bytes.len() as u64 {
        for _ in 0..1 + c.below(3) {
            let a = match c.below(3) {
                0 => lo,
                _ => lo - c.below(lo.min(24) + 1),
            };
            let b = match c.below(3) {
                0 => hi,
                1 => (hi + c.below(24)).min(bytes.len() as u64),
                _ => a + c.below(hi - a + 1),
            };
            let h = elf::section::SectionHeader { sh_name: 0, sh_type: 1, sh_flags: 0, sh_addr: 0, sh_offset: a, sh_size: b.max(a) - a, sh_link: 0, sh_info: 0, sh_addralign: 1, sh_entsize: 0 };
            let _ = s.section_data(&h);
            before.push((a, b.max(a)));
        }
        obs.label("other_ranges_read_before_the_notes");
    }
    let fault = c.u8() >= 128;
    if fault {
        let at = reader.calls() + c.below(4);
        let kind = if c.bool() { FaultKind::Error } else { FaultKind::Eof };
        let ekind = c.below(8) as u8;
        reader.st.borrow_mut().faults.push(Fault { at, kind, permanent: false, ekind });
    }
    let ctx = format!("ElfStream::{} of [{}, {}) (reader chunks {:?} interrupt_every {} initial position {}{}; ranges read before: {:?})", what, lo, hi, chunks, intr, pos0, if fault { ", one transient I/O failure" } else { "" }, before);
    let mut answered = 0;
    for attempt in 0..5 {
        let fired0 = reader.fired();
        let r: Result<Vec<Digest>, ParseError> = match sec {
            Some(i) => {
                let sh = s.section_headers()[i];
                s.section_data_as_notes(&sh).map(|it| it.map(digest).collect())
            }
            None => {
                let ph = s.segments()[0];
                s.segment_data_as_notes(&ph).map(|it| it.map(digest).collect())
            }
        };
        match r {
            Ok(v) => {
                if v != want {
                    return Err(format!("{}: attempt #{} yields {:?}; the slice parser yields {:?}", ctx, attempt, v, want));
                }
                answered += 1;
                if answered == 2 {
                    break;
                }
            }
            Err(er) => {
                // (once an I/O call has failed, C17 lets every later call fail again)
                if reader.fired() == fired0 && reader.fired() == 0 {
                    return Err(format!("{}: attempt #{} failed with {} although no I/O call failed and the slice parser answers", ctx, attempt, err_name(&er)));
                }
                obs.label("stream_call_failed_on_injected_fault_then_retried");
            }
        }
    }
    obs.count("stream_paths_compared", 1);
    Ok(())
}

fn oracle(case: &[u8], obs: &mut Obs) -> Result<(), String> {
    let mut c = Choice::new(case);
    let enc = ALL_ENC[c.below(4) as usize];
    let spec = specs_for(enc.le)[c.below(2) as usize];
    let class = class_of(enc);
    let align: u64 = match c.below(12) {
        0 => 0,
        1 => 1,
        2 => 2,
        3 | 4 | 5 => 4,
        6 | 7 => 8,
        8 => 16,
        9 => 3 + c.below(30),
        10 => *c.pick(&[1u64 << 31, 1 << 32, 1 << 63, u64::MAX, u64::MAX - 1, 0x8000_0000_0000_0001, 12, 24, 6, 5, 7]),
        _ => c.val(64),
    };
    let walign = if align == 0 || align > 64 { 4 } else { align as usize };
    let n = match c.below(6) {
        0 => 0,
        1 => 1,
        _ => c.below(21) as usize,
    };
    let mut w = m::W::new(enc);
    let mut last_start = 0usize;
    let mut odd_len = false;
    for _ in 0..n {
        let kind = c.below(8);
        let rec = match kind {
            0 => {
                let mut d = vec![];
                for _ in 0..4 {
                    d.extend_from_slice(&(c.field(32) as u32).to_le_bytes());
                }
                m::NoteRec { n_type: 1, name: b"GNU\0".to_vec(), desc: d }
            }
            1 => {
                let l = c.below(41) as usize;
                m::NoteRec { n_type: 3, name: b"GNU\0".to_vec(), desc: c.bytes(l) }
            }
            2 if c.chance(40) => {
                let l = c.below(16) as usize;
                m::NoteRec { n_type: 1, name: b"GNU\0".to_vec(), desc: c.bytes(l) }
            }
            _ => {
                let nl = if c.chance(64) { c.below(5) as usize } else { c.below(41) as usize };
                let dl = if c.chance(64) { 0 } else { c.below(41) as usize };
                let name: Vec<u8> = match c.below(6) {
                    0 => b"GNU\0".to_vec(),
                    1 => {
                        let mut v = c.bytes(nl);
                        for b in v.iter_mut() {
                            *b |= 0x80
                        }
                        v
                    }
                    2 => {
                        let mut v: Vec<u8> = (0..nl).map(|i| b'A' + (i % 26) as u8).collect();
                        let z = c.below(4) as usize;
                        for i in 0..z.min(v.len()) {
                            let l = v.len();
                            v[l - 1 - i] = 0;
                        }
                        v
                    }
                    3 => b"GNU".to_vec(),
                    _ => {
                        let mut v: Vec<u8> = (0..nl).map(|i| b'a' + (i % 26) as u8).collect();
                        if let Some(l) = v.last_mut() {
                            *l = 0
                        }
                        v
                    }
                };
                let n_type = match c.below(4) {
                    0 => 1,
                    1 => 3,
                    2 => c.field(32) as u32,
                    _ => c.below(8) as u32,
                };
                m::NoteRec { n_type, name, desc: c.bytes(dl) }
            }
        };
        if walign > 1 && (rec.name.len() % walign != 0 || rec.desc.len() % walign != 0) {
            odd_len = true;
        }
        last_start = w.buf.len();
        rec.write(&mut w, 0, walign);
    }
    let mut data = w.buf;
    // tail: exact, garbage, or truncated somewhere inside the last record
    let tail = c.below(5);
    match tail {
        0 | 1 => {}
        2 => {
            let k = c.below(30) as usize;
            let g = c.bytes(k);
            data.extend_from_slice(&g);
        }
        3 => {
            if data.len() > last_start {
                let cut = last_start + c.idx(data.len() - last_start + 1);
                data.truncate(cut);
            }
        }
        _ => {
            // corrupt one size field
            if data.len() >= 12 {
                let at = c.idx(data.len() / 4) * 4;
                let v = (c.val(32) as u32).to_le_bytes();
                for k in 0..4 {
                    if at + k < data.len() {
                        data[at + k] = if enc.le { v[k] } else { v[3 - k] };
                    }
                }
            }
        }
    }
    let via = c.below(3);
    if align <= usize::MAX as u64 {
        // the iterator ends for good: polled through fuse() it stays None after the first None
        let stays_none = with_endian!(spec, |e| {
            let mut f = NoteIterator::new(e, class, align as usize, &data).fuse();
            let mut k = 0usize;
            while f.next().is_some() && k <= data.len() {
                k += 1;
            }
            f.next().is_none() && f.next().is_none() && f.next().is_none()
        });
        if !stays_none {
            return Err(format!("NoteIterator(align={}).fuse() yielded an item after it had returned None; data[{}]={}", align, data.len(), hex(&data[..data.len().min(96)])));
        }
    }
    let (items, excluded) = match via {
        0 => {
            if align > usize::MAX as u64 {
                return Ok(());
            }
            with_endian!(spec, |e| compare(|| NoteIterator::new(e, class, align as usize, &data), &data, enc.le, align, obs, "NoteIterator::new"))?
        }
        1 => {
            // through a section of a complete file
            let mut f = FileSpec::new(enc);
            f.add_sec(b"", m::SHT_NULL, vec![]);
            let i = f.add_sec(b".note.x", m::SHT_NOTE, data.clone());
            f.secs[i].hdr.sh_addralign = align;
            let s = f.add_sec(b".shstrtab", m::SHT_STRTAB, vec![]);
            f.shstrndx = Some(s);
            filegen::random_layout(&mut c, &mut f, 40);
            let b = filegen::build(&f);
            let al = b.shdrs[i].sh_addralign;
            let (off, len) = b.body_at[i];
            with_endian!(spec, |e| {
                let file = open_as(e, &b.bytes).map_err(|er| format!("harness: generated file does not open: {}", err_name(&er)))?;
                let sh = file.section_headers().ok_or("no section headers")?.get(i).map_err(|er| format!("shdr {}", err_name(&er)))?;
                file.section_data_as_notes(&sh).map_err(|er| format!("section_data_as_notes failed with {}", err_name(&er)))?;
                compare(|| file.section_data_as_notes(&sh).unwrap(), &b.bytes[off..off + len], enc.le, al, obs, "ElfBytes::section_data_as_notes")
            })
            .and_then(|r| {
                if c.u8() >= 100 {
                    with_endian!(spec, |e| via_stream(e, &b.bytes, Some(i), &mut c, obs))?;
                }
                Ok(r)
            })?
        }
        _ => {
            let mut f = FileSpec::new(enc);
            f.add_sec(b"", m::SHT_NULL, vec![]);
            // the covered section is a plain PROGBITS section or (half) a SHT_NOTE section with an alignment of its own:
            // a segment's records are laid out by p_align
            let sec_is_note = c.bool();
            let i = f.add_sec(b".note.y", if sec_is_note { m::SHT_NOTE } else { m::SHT_PROGBITS }, data.clone());
            if sec_is_note {
                f.secs[i].hdr.sh_addralign = *c.pick(&[4u64, 8, 1, 0, 16, 2]);
            }
            f.segs.push(Seg { hdr: m::Phdr { p_type: m::PT_NOTE, p_align: align, p_memsz: c.val(32), ..Default::default() }, covers: Some(i) });
            filegen::random_layout(&mut c, &mut f, 40);
            let b = filegen::build(&f);
            let al = b.phdrs[0].p_align;
            let (off, len) = b.body_at[i];
            with_endian!(spec, |e| {
                let file = open_as(e, &b.bytes).map_err(|er| format!("harness: generated file does not open: {}", err_name(&er)))?;
                let ph = file.segments().ok_or("no segments")?.get(0).map_err(|er| format!("phdr {}", err_name(&er)))?;
                file.segment_data_as_notes(&ph).map_err(|er| format!("segment_data_as_notes failed with {}", err_name(&er)))?;
                compare(|| file.segment_data_as_notes(&ph).unwrap(), &b.bytes[off..off + len], enc.le, al, obs, "ElfBytes::segment_data_as_notes")
            })
            .and_then(|r| {
                if c.u8() >= 100 {
                    with_endian!(spec, |e| via_stream(e, &b.bytes, None, &mut c, obs))?;
                }
                Ok(r)
            })?
        }
    };
    obs.count("notes_compared", items as u64);
    if excluded {
        obs.skip("ambiguous_or_out_of_domain_tail");
    }
    obs.label(["standalone", "via_section", "via_segment"][via as usize]);
    obs.label_if(align == 0, "align0");
    obs.label_if(!enc.le, "big_endian");
    obs.label_if(align != 4 && align != 0, "align_not_4");
    obs.label_if(align > 16 || (align != 0 && !align.is_power_of_two()), "align_unusual");
    obs.label_if(tail == 3, "truncated_tail");
    if items >= 2 && (odd_len || !enc.le || align != 4) {
        obs.nontrivial();
    }
    obs.key = fnv64(&data) ^ align.rotate_left(20) ^ (via as u64) << 60 ^ (spec as u64) << 56 ^ (enc.c64 as u64) << 55;
    let via_name = ["NoteIterator::new", "section", "segment"][via as usize];
    obs.describe(|| json!({"enc": enc.name(), "spec": SPEC_NAMES[spec as usize], "align": align, "via": via_name, "notes_generated": n, "notes_yielded_and_compared": items, "tail_mode": tail, "data_hex": hex(&data[..data.len().min(80)]), "data_len": data.len()}));
    Ok(())
}

pub fn property() -> Property {
    Property {
        id: "C14",
        level: "exploration",
        rule: "cases are (class, order, fixed/run-time spec, alignment in {0,1,2,4,8,16, 3..32, 2^31, 2^32, 2^63, 2^64-1, boundary/raw values}, 0..20 notes with namesz/descsz 0..40 covering every residue, GNU ABI-tag (16-byte descriptor; rarely a shorter one, which must not yield a typed tag) and build-id notes, names \"GNU\\0\"/\"GNU\"/non-UTF-8/with 0..3 trailing NULs, tail = exact | garbage | truncated at any byte of the last record | one corrupted size word, access path = NoteIterator::new | section of a generated file | PT_NOTE segment of a generated file (over a PROGBITS section or over a SHT_NOTE section whose own sh_addralign differs from p_align), the latter two in 60% of the cases also through ElfStream over a reader with short reads / interruptions / any initial cursor and, in half of those, one transient I/O failure while the note bytes are loaded followed by a repetition of the call (in half of the cases after other ranges - enclosing the notes, sharing their start or their end - were read through the same handle): the first two successful answers equal the slice parser's notes, a failure needs a failed I/O call at or before it); oracle = independent reference walker (12-byte header of three 32-bit words in file order for both classes, name, pad, desc, pad): polled through fuse() the iterator stays None after its first None; items up to the first None equal the reference list (typed variants for GNU notes, name/desc exact byte ranges pointer-checked, name_str = UTF-8 minus trailing NULs), iteration ends at the first record that does not fit, align 0 yields nothing; nth/skip/count/last/step_by/size_hint on fresh and partly consumed iterators agree with repeated next(). Non-trivial: >=2 notes compared and (a length not a multiple of the alignment, or big-endian, or alignment != 4); distinct by (data, align, path) hash.",
        assumptions: &["a record whose empty descriptor would start in padding beyond the data is ambiguous under 'does not fit' and is excluded (counted)", "GNU ABI-tag notes with a descriptor shorter than 16 bytes (only reachable through the corrupted-size tail) are outside the statement and excluded (counted)"],
        subs: vec![Sub::new("notes", oracle, 2200, 2_000_000, 40_000_000)],
        extras: vec![crate::fuzz::c14_choice],
    }
}
