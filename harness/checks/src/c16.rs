//! C16 — every lookup and iteration terminates within work bounded by the input size.
use crate::c01;
use crate::common::*;
use crate::walk::{self, WalkStats};
use elf::gnu_symver::*;
use elf::hash::{GnuHashTable, SysVHashTable};
use elf::note::NoteIterator;
use elf::string_table::StringTable;
use elf::symbol::SymbolTable;
use verif_model::elfw as m;
use verif_model::inputs::{self, InputOpts};
use verif_model::refs;

fn bound<I: Iterator>(it: I, limit: u64, what: &str) -> Result<u64, String> {
    let mut n = 0u64;
    for _ in it {
        n += 1;
        if n > limit {
            return Err(format!("{} yielded more than {} items", what, limit));
        }
    }
    Ok(n)
}

fn oracle_links(case: &[u8], obs: &mut Obs) -> Result<(), String> {
    let mut c = Choice::new(case);
    let enc = ALL_ENC[c.below(4) as usize];
    let e = any_of(enc);
    let class = class_of(enc);
    let fam = c.below(5);
    let mut executed = false;
    let mut adversarial = false;
    let mut desc = json!(null);
    match fam {
        0 => {
            // SysV chains with cycles of every length and self-loops; the query never matches a name
            let nsyms = 2 + c.below(14) as usize;
            let nbucket = 1 + c.below(3) as u32;
            let names: Vec<Vec<u8>> = (0..nsyms).map(|i| if i == 0 { vec![] } else { vec![b's', b'a' + i as u8] }).collect();
            let tab = refs::build_symtab(enc, &names, 7, false);
            let query: Vec<u8> = b"no_such_symbol".to_vec();
            let qb = (refs::elf_hash(&query) % nbucket) as usize;
            let mut buckets = vec![0u32; nbucket as usize];
            let extra_chain = c.below(3) as usize;
            let mut chains = vec![0u32; nsyms + extra_chain];
            // a path of distinct indices ending in a cycle of length L
            let mut idx: Vec<u32> = (1..nsyms as u32).collect();
            for i in (1..idx.len()).rev() {
                let j = c.idx(i + 1);
                idx.swap(i, j);
            }
            let plen = 1 + c.idx(idx.len());
            let path = &idx[..plen];
            let cyc = 1 + c.idx(plen);
            for k in 0..plen - 1 {
                chains[path[k] as usize] = path[k + 1];
            }
            let closes = !c.chance(40);
            if closes {
                chains[path[plen - 1] as usize] = path[plen - cyc];
                adversarial = true;
            }
            buckets[qb] = path[0];
            for b in 0..nbucket as usize {
                if b != qb {
                    buckets[b] = c.below(nsyms as u64) as u32;
                }
            }
            let mut w = m::W::new(enc);
            w.u32(nbucket);
            // a quarter of the tables declare a chain count that is not the one the section holds (a constructor that
            // refuses them is fine; one that accepts them must still end its walks)
            let lie = c.u8();
            let declared = if lie >= 192 { *c.pick(&[u32::MAX, 0x7fff_ffff, 0x1_0000, chains.len() as u32 + 1, 0x00ff_ffff]) } else { chains.len() as u32 };
            w.u32(declared);
            for b in &buckets {
                w.u32(*b)
            }
            for x in &chains {
                w.u32(*x)
            }
            let h = match SysVHashTable::new(e, class, &w.buf) {
                Ok(h) => h,
                Err(_) if declared != chains.len() as u32 => {
                    obs.label("sysv_declared_count_refused");
                    return Ok(());
                }
                Err(er) => return Err(format!("harness: sysv table: {}", err_name(&er))),
            };
            let st = SymbolTable::new(e, class, &tab.symtab);
            let strs = StringTable::new(&tab.strtab);
            let r = h.find(&query, &st, &strs);
            executed = true;
            // formatting the table must terminate as well
            let mut sink = walk::Sink(0);
            let _ = core::fmt::Write::write_fmt(&mut sink, format_args!("{:?}", h));
            if let Ok(Some((i, _))) = r {
                return Err(format!("SysV lookup of an absent name returned index {}", i));
            }
            // a present name must still be found or the walk must end (either is fine for C16)
            let _ = h.find(&names[path[c.idx(plen)] as usize], &st, &strs);
            // more absent names (every bucket is hit): a walk bounded by anything but the table's size adds up
            for k in 0..6u8 {
                let _ = h.find(&[b'z', b'a' + k, b'q'], &st, &strs);
            }
            desc = json!({"family": "sysv_cycle", "nsyms": nsyms, "nbucket": nbucket, "path_len": plen, "cycle_len": if closes { cyc } else { 0 }});
        }
        1 => {
            // GNU chains without stop bit, every chain hash equal to the query's, names never equal
            let nsyms = 1 + c.below(40) as usize;
            let symoffset = 1 + c.below(3) as usize;
            let names: Vec<Vec<u8>> = (0..nsyms + symoffset).map(|i| if i == 0 { vec![] } else { vec![b'g', 1 + (i % 250) as u8, 1 + (i / 250) as u8] }).collect();
            let tab = refs::build_symtab(enc, &names, 9, false);
            let query = b"absent".to_vec();
            let hq = refs::djb2(&query);
            let nbucket = 1 + c.below(3) as u32;
            let mut w = m::W::new(enc);
            w.u32(nbucket);
            w.u32(symoffset as u32);
            w.u32(1);
            w.u32(c.below(32) as u32);
            if enc.c64 {
                w.u64(u64::MAX)
            } else {
                w.u32(u32::MAX)
            }
            for _ in 0..nbucket {
                w.u32(symoffset as u32 + c.below(nsyms as u64) as u32);
            }
            let stop_at = if c.chance(60) { Some(c.idx(nsyms)) } else { None };
            for i in 0..nsyms {
                let v = if c.chance(200) { hq & !1 } else { c.u32() & !1 };
                w.u32(v | (stop_at == Some(i)) as u32);
            }
            adversarial = stop_at.is_none();
            let h = GnuHashTable::new(e, class, &w.buf).map_err(|er| format!("harness: gnu table: {}", err_name(&er)))?;
            let st = SymbolTable::new(e, class, &tab.symtab);
            let strs = StringTable::new(&tab.strtab);
            if let Ok(Some((i, _))) = h.find(&query, &st, &strs) {
                return Err(format!("GNU lookup of an absent name returned index {}", i));
            }
            executed = true;
            desc = json!({"family": "gnu_no_stop_bit", "nsyms": nsyms, "nbucket": nbucket, "stop_bit_at": stop_at});
        }
        2 | 3 => {
            // version records with adversarial links and counts
            let need = fam == 2;
            let (hs, axs) = if need { (m::VERNEED_SIZE, m::VERNAUX_SIZE) } else { (m::VERDEF_SIZE, m::VERDAUX_SIZE) };
            let len = hs + c.below(400) as usize;
            let mut data = vec![0u8; len];
            verif_model::choice::fill(c.u16() as u64, &mut data);
            let nrec = 1 + c.below(6) as usize;
            let mut at = 0usize;
            let mut zero_or_self = false;
            for _ in 0..nrec {
                if at + hs > len {
                    break;
                }
                let linkv = |c: &mut Choice, own: usize| -> u32 {
                    match c.below(12) {
                        0 => 0,
                        1 => 1,
                        2 => hs as u32,
                        3 => axs as u32,
                        4 => (len - own) as u32,
                        5 => u32::MAX,
                        6 => 0x8000_0000,
                        7 => c.below(len as u64 + 1) as u32,
                        // a link that is a backward step in 32-bit wrapping arithmetic
                        8 => 0u32.wrapping_sub(own as u32),
                        9 => 0u32.wrapping_sub(*c.pick(&[16u32, 20, 8, 32, 40])),
                        _ => (hs + c.below(40) as usize) as u32,
                    }
                };
                let cnt = *c.pick(&[0u16, 1, 2, 3, 0x7fff, 0xffff]);
                let aux = linkv(&mut c, at);
                let next = linkv(&mut c, at);
                if next == 0 || aux == 0 || next < hs as u32 {
                    zero_or_self = true;
                }
                // (the revision field is 1 in every file a linker wrote; nothing makes a reader depend on it)
                let ver: u16 = if c.chance(170) { 1 } else { c.val(16) as u16 };
                let b = if need { m::enc_bytes(enc, |w| m::Verneed { vn_version: ver, vn_cnt: cnt, vn_file: c.val(32) as u32, vn_aux: aux, vn_next: next }.write(w)) } else { m::enc_bytes(enc, |w| m::Verdef { vd_version: ver, vd_flags: 0, vd_ndx: c.below(5) as u16, vd_cnt: cnt, vd_hash: 0, vd_aux: aux, vd_next: next }.write(w)) };
                data[at..at + hs].copy_from_slice(&b);
                // an aux record with adversarial next where the header points
                let apos = at.saturating_add(aux as usize);
                if apos.checked_add(axs).map(|e| e <= len).unwrap_or(false) && c.chance(180) {
                    let an = linkv(&mut c, apos);
                    if an == 0 || an < axs as u32 {
                        zero_or_self = true;
                    }
                    let ab = if need { m::enc_bytes(enc, |w| m::Vernaux { vna_hash: 1, vna_flags: 0, vna_other: c.below(5) as u16, vna_name: c.below(8) as u32, vna_next: an }.write(w)) } else { m::enc_bytes(enc, |w| m::Verdaux { vda_name: c.below(8) as u32, vda_next: an }.write(w)) };
                    data[apos..apos + axs].copy_from_slice(&ab);
                }
                at = at.saturating_add(if (next as usize) < len { next as usize } else { len });
                if next == 0 {
                    break;
                }
            }
            let count = *c.pick(&[1u64, 2, 3, 0xffff, 0xffff_ffff, u64::MAX, 1 << 40]);
            let l = len as u64;
            adversarial = zero_or_self || count > l;
            let strs_data = b"\0lib\0ver\0x\0";
            let strs = StringTable::new(strs_data);
            if need {
                let mut outer = 0u64;
                for (v, aux) in VerNeedIterator::new(e, class, count, 0, &data) {
                    outer += 1;
                    if outer > count.min(l) {
                        return Err(format!("VerNeedIterator(count={}) over {} bytes yielded more than {} records", count, len, count.min(l)));
                    }
                    bound(aux, (v.vn_cnt as u64).min(l), &format!("VerNeedAuxIterator(vn_cnt={}) over {} bytes", v.vn_cnt, len))?;
                }
                let ids_bytes = m::enc_bytes(enc, |w| {
                    for i in 0..6u16 {
                        w.u16(i)
                    }
                });
                let t = SymbolVersionTable::new(VersionIndexTable::new(e, class, &ids_bytes), Some((VerNeedIterator::new(e, class, count, 0, &data), strs)), None);
                for i in 0..7 {
                    let _ = t.get_requirement(i);
                }
            } else {
                let mut outer = 0u64;
                for (v, aux) in VerDefIterator::new(e, class, count, 0, &data) {
                    outer += 1;
                    if outer > count.min(l) {
                        return Err(format!("VerDefIterator(count={}) over {} bytes yielded more than {} records", count, len, count.min(l)));
                    }
                    bound(aux, (v.vd_cnt as u64).min(l), &format!("VerDefAuxIterator(vd_cnt={}) over {} bytes", v.vd_cnt, len))?;
                }
                let ids_bytes = m::enc_bytes(enc, |w| {
                    for i in 0..6u16 {
                        w.u16(i)
                    }
                });
                let t = SymbolVersionTable::new(VersionIndexTable::new(e, class, &ids_bytes), None, Some((VerDefIterator::new(e, class, count, 0, &data), strs)));
                for i in 0..7 {
                    if let Ok(Some(d)) = t.get_definition(i) {
                        bound(d.names, l, "SymbolNamesIterator")?;
                    }
                }
            }
            executed = true;
            desc = json!({"family": if need {"verneed_links"} else {"verdef_links"}, "section_len": len, "declared_count": count.to_string(), "records_written": nrec, "zero_or_overlapping_link": zero_or_self, "section_prefix_hex": hex(&data[..data.len().min(48)])});
        }
        _ => {
            // note and entry sections with trailing partial records
            let len = c.below(300) as usize;
            let mut data = c.bytes(len.min(80));
            data.resize(len, 0);
            let align = *c.pick(&[1usize, 2, 4, 8, 3]);
            let n = bound(NoteIterator::new(e, class, align, &data), len as u64 / 12 + 1, "NoteIterator")?;
            bound(ParsingIterator::<_, elf::relocation::Rela>::new(e, class, &data), len as u64, "RelaIterator")?;
            bound(ParsingIterator::<_, elf::symbol::Symbol>::new(e, class, &data), len as u64, "ParsingIterator<Symbol>")?;
            // the same through standard iterator adaptors on an already advanced iterator
            let mut it = ParsingIterator::<_, elf::relocation::Rel>::new(e, class, &data);
            let _ = it.next();
            let mut k = 0u64;
            while it.nth(0).is_some() {
                k += 1;
                if k > len as u64 {
                    return Err(format!("RelIterator driven with nth(0) over {} bytes yielded more than {} items", len, len));
                }
            }
            bound(ParsingIterator::<_, elf::dynamic::Dyn>::new(e, class, &data).step_by(2), len as u64, "ParsingIterator<Dyn>.step_by(2)")?;
            bound(NoteIterator::new(e, class, align, &data).skip(1).step_by(3), len as u64, "NoteIterator.skip(1).step_by(3)")?;
            executed = true;
            adversarial = len % 12 != 0 && n > 0;
            desc = json!({"family": "partial_records", "len": len, "align": align, "notes": n});
        }
    }
    obs.label(["sysv_cycle", "gnu_no_stop_bit", "verneed_links", "verdef_links", "partial_records"][fam as usize]);
    obs.label_if(adversarial, "adversarial_structure");
    if adversarial && executed {
        obs.nontrivial();
    }
    obs.describe(|| desc.clone());
    Ok(())
}

/// The C01 input domain with unlimited iterator budget: every iterator is driven to bound+1 items.
fn oracle_walk(case: &[u8], obs: &mut Obs) -> Result<(), String> {
    let mut c = Choice::new(case);
    let mut o = InputOpts::default();
    o.rich.corrupt_chance = 170;
    o.rich.override_chance = 150;
    o.max_sample = 16_000;
    let inp = inputs::gen_input(&mut c, &o);
    let args = c.rest();
    let mut wc = Choice::new(args);
    let mut st = WalkStats::new(usize::MAX);
    walk::walk(&inp.data, &mut wc, &mut st);
    if let Some((what, n, b)) = st.bound_violation {
        return Err(format!("{} yielded {} items, more than its bound of {} (input of {} bytes, mode {}: {})", what, n, b, inp.data.len(), inp.mode, inp.note));
    }
    c01::labels(&st, obs);
    obs.label(inp.mode);
    obs.count("iterator_items", st.items);
    let corrupted = inp.rich.as_ref().map(|r| r.corrupted || r.overridden).unwrap_or(inp.mode == "sample" && !inp.note.ends_with(' '));
    obs.label_if(corrupted, "corrupted_input");
    if corrupted && st.flags & (walk::F_SYSV_FIND | walk::F_GNU_FIND | walk::F_SYMVER) != 0 && st.flags & walk::F_OPENED != 0 {
        obs.nontrivial();
    }
    obs.key = fnv64(&inp.data) ^ fnv64(args).rotate_left(21);
    obs.describe(|| json!({"mode": inp.mode, "input_len": inp.data.len(), "note": inp.note, "iterator_items": st.items, "reached": walk::FLAG_NAMES.iter().filter(|(f, _)| st.flags & f != 0).map(|(_, n)| *n).collect::<Vec<_>>()}));
    Ok(())
}

/// Stream queries must return too (with anything) when the stream ends before the length it reported, delivers
/// nothing from some call on, or cannot say how long it is: generated/sample files of at most 16 KB, the C07 query
/// vocabulary. Only termination is judged here (the watchdog); what is returned is C07/C08/C17's business.
fn oracle_stream(case: &[u8], obs: &mut Obs) -> Result<(), String> {
    use verif_model::io::{Fault, FaultKind, Reader};
    let mut c = Choice::new(case);
    let mut o = InputOpts::default();
    o.rich.corrupt_chance = 60;
    o.rich.override_chance = 60;
    o.max_sample = 16_000;
    let inp = inputs::gen_input(&mut c, &o);
    let data = inp.data.clone();
    let (nsec, nseg) = match elf::ElfBytes::<AnyEndian>::minimal_parse(&data) {
        Ok(f) => (f.section_headers().map(|t| t.len()).unwrap_or(0).min(4096), f.segments().map(|t| t.len()).unwrap_or(0).min(4096)),
        Err(_) => (0, 0),
    };
    let (chunks, intr) = crate::stream::gen_reader_behaviour(&mut c, 16);
    let mode = c.below(5);
    let mut reader = match mode {
        // a healthy stream (the queries run to their end on the adversarial file)
        4 => Reader::with(data.clone(), chunks, intr, vec![]),
        // the stream claims more bytes than it can deliver
        0 => Reader::with(data.clone(), chunks, intr, vec![]).over_reporting(1 + c.below(100_000)),
        // the file was cut after it was measured: the reported length is the old one
        1 => {
            let cut = c.below(data.len() as u64 + 1) as usize;
            Reader::with(data[..cut].to_vec(), chunks, intr, vec![]).over_reporting((data.len() - cut) as u64)
        }
        // from some call on every read delivers nothing
        2 => Reader::with(data.clone(), chunks, intr, vec![Fault { at: c.below(60), kind: FaultKind::Eof, permanent: true, ekind: 0 }]),
        // from some call on every call fails
        _ => Reader::with(data.clone(), chunks, intr, vec![Fault { at: c.below(60), kind: FaultKind::Error, permanent: true, ekind: c.below(8) as u8 }]),
    };
    if c.u8() >= 230 {
        reader = reader.without_seek_end(c.below(8) as u8);
    }
    let names = vec![b"memset".to_vec()];
    let (ops, _) = crate::stream::gen_ops(&mut c, nsec, nseg, data.len(), &names, 12);
    let mut returned = 0u64;
    if let Ok(mut s) = guard(|| open_stream_as(AnyEndian::Little, reader.clone())).map_err(|p| format!("open_stream panicked: {}", p))? {
        obs.label("stream_opened");
        for q in &ops {
            let _ = crate::queries::eval_stream(&mut s, q);
            returned += 1;
        }
        // the entry and note iterators a stream hands out: at most one item per byte of the section
        let hs: Vec<elf::section::SectionHeader> = s.section_headers().iter().copied().take(48).collect();
        for (i, h) in hs.iter().enumerate() {
            let bound = (h.sh_size as usize).min(data.len());
            let n = match h.sh_type {
                elf::abi::SHT_REL => s.section_data_as_rels(h).map(|it| it.take(bound + 2).count()).ok(),
                elf::abi::SHT_RELA => s.section_data_as_relas(h).map(|it| it.take(bound + 2).count()).ok(),
                elf::abi::SHT_NOTE => s.section_data_as_notes(h).map(|it| it.take(bound + 2).count()).ok(),
                _ => None,
            };
            if let Some(n) = n {
                if n > bound {
                    return Err(format!("{}-byte {} input ({}): the iterator ElfStream hands out for section {} (type {:#x}, sh_size {:#x}, sh_entsize {:#x}) yields more than {} items", data.len(), inp.mode, inp.note, i, h.sh_type, h.sh_size, h.sh_entsize, bound));
                }
                obs.count("stream_iterators_bounded", 1);
            }
        }
    }
    obs.count("stream_calls_returned", returned + 1);
    obs.label(["over_reporting_stream", "file_cut_after_measuring", "permanent_eof", "permanent_error", "healthy_stream"][mode as usize]);
    if returned > 0 {
        obs.nontrivial();
    }
    obs.key = fnv64(&data) ^ (mode << 60) ^ fnv64(format!("{:?}", ops).as_bytes()).rotate_left(17);
    let rname = ["over-reporting", "cut after measuring", "permanent EOF", "permanent error", "healthy"][mode as usize];
    obs.describe(|| json!({"input": inp.note, "input_len": data.len(), "reader": rname, "ops": ops.len()}));
    Ok(())
}

/// raw mode: [n][n walker-argument bytes][the ELF file], unlimited iterator budget
pub fn oracle_walk_raw(case: &[u8], obs: &mut Obs) -> Result<(), String> {
    let (args, data) = c01::split_raw(case);
    if data.len() > 70_000 {
        return Ok(());
    }
    let mut wc = Choice::new(args);
    let mut st = WalkStats::new(usize::MAX);
    walk::walk(data, &mut wc, &mut st);
    if let Some((what, n, b)) = st.bound_violation {
        return Err(format!("{} yielded {} items, more than its bound of {} (raw input of {} bytes)", what, n, b, data.len()));
    }
    c01::labels(&st, obs);
    if st.flags & walk::F_OPENED != 0 {
        obs.nontrivial();
    }
    obs.describe(|| json!({"mode": "raw_file", "input_len": data.len(), "iterator_items": st.items}));
    Ok(())
}

pub fn property() -> Property {
    Property {
        id: "C16",
        level: "exploration",
        rule: "links: adversarial link structures built on purpose - SysV hash chains with cycles of every length 1..n and self-loops reached from the queried bucket with a name that never matches; GNU chains without stop bit whose hashes all equal the query's; Verdef/Verneed/aux records with next/aux links from {0,1,own size,aux size,distance to end,2^31,2^32-1,random} and (also backward steps in 32-bit wrapping arithmetic) and declared counts from {1,2,3,2^16-1,2^32-1,2^40,2^64-1}, queried through the iterators and through SymbolVersionTable; note and entry sections with trailing partial records, also driven through nth(0)/skip/step_by on an advanced iterator; Debug formatting of the cyclic tables. walk: the C01 input domain (rich files with overrides/corruption, mutated samples, raw bytes) with every iterator driven to bound+1 items. Oracle: every iterator yields at most one item per input byte, a version-record iterator at most min(declared count, bytes) records, an absent name is never found, and every single case returns before the watchdog limit (15 s for links, 60 s for walk; typical cost is microseconds). Non-trivial (links): the structure is adversarial (cycle / no stop bit / zero, self or overlapping link / count larger than the data) and the lookup or iteration was executed; (walk): corrupted input that opened and reached a hash lookup or version query. stream: files of at most 16 KB behind a stream that reports more bytes than it delivers, was cut after it was measured, delivers nothing or fails from some call on (optionally without SeekFrom::End), or is healthy (a fifth), 0..12 stream queries; termination is judged (20 s watchdog), and the relocation / note iterators the stream hands out for the first 48 sections yield at most one item per section byte; non-trivial when the stream opened and a query returned.",
        assumptions: &["wall-clock watchdog: limits are far above the worst legitimate nested walk on the generated sizes (version sections <= 420 bytes, files <= 16 KiB)", "a hang is detected by the watchdog; termination is not proved"],
        subs: vec![Sub::new("links", oracle_links, 400, 3_000_000, 40_000_000).hang_violation().hang_secs(15), Sub::new("walk", oracle_walk, 3000, 250_000, 8_000_000).hang_violation().shrink(2000), Sub::new("walk_raw", oracle_walk_raw, 600, 20_000, 200_000).hang_violation().shrink(2000), Sub::new("stream", oracle_stream, 1500, 40_000, 1_500_000).hang_violation().hang_secs(20).shrink(300)],
        extras: vec![crate::fuzz::c16_campaign],
    }
}
