//! C17 — stream I/O failures surface as errors and never corrupt later answers (fault enumeration).
use crate::common::*;
use crate::queries::{self, Q, QR};
use crate::stream;
use verif_model::filegen::{self, RichOpts};
use verif_model::inputs;
use verif_model::io::{Fault, FaultKind, Reader};

struct Base {
    data: Vec<u8>,
    ops: Vec<Q>,
    chunks: Vec<usize>,
    intr: u64,
    pos0: u64,
    note: String,
}

fn gen_base(c: &mut Choice) -> Base {
    // mostly valid generated files (so that queries succeed fault-free), a share of samples
    let bulk = c.u8();
    let (data, names, note) = if bulk >= 248 {
        // a file with one section larger than 64 KiB (a reader may serve it in several pieces)
        use verif_model::elfw as m;
        let mut f = filegen::FileSpec::new(ALL_ENC[c.below(4) as usize]);
        f.add_sec(b"", m::SHT_NULL, vec![]);
        let mut body = vec![0u8; (64 << 10) + 1 + c.below(40 << 10) as usize];
        verif_model::choice::fill(c.u64() | 1, &mut body);
        for b in body.iter_mut() {
            *b |= 1;
        }
        f.add_sec(b".bulk", m::SHT_PROGBITS, body);
        let sidx = f.add_sec(b".shstrtab", m::SHT_STRTAB, vec![]);
        f.shstrndx = Some(sidx);
        filegen::random_layout(c, &mut f, 24);
        let b = filegen::build(&f);
        let n = b.bytes.len();
        (b.bytes, vec![b"memset".to_vec()], format!("file of {} bytes with a section above 64 KiB", n))
    } else if c.chance(40) {
        let all = inputs::samples();
        let small: Vec<_> = all.iter().filter(|(_, b)| b.len() <= 16_000).collect();
        let (n, b) = small[c.idx(small.len())];
        (b.clone(), vec![b"memset".to_vec()], format!("sample {}", n))
    } else {
        let o = RichOpts { override_chance: 30, corrupt_chance: 20, max_gap: 16, tables_early: false, allow_compressed: true, max_names: 5, shrink_chance: 0, many_sections: false };
        let r = filegen::rich_file(c, &o);
        let note = format!("rich file with {} sections", r.built.shdrs.len());
        (r.built.bytes, r.dyn_names, note)
    };
    let (nsec, nseg) = match elf::ElfBytes::<AnyEndian>::minimal_parse(&data) {
        Ok(f) => (f.section_headers().map(|t| t.len()).unwrap_or(0), f.segments().map(|t| t.len()).unwrap_or(0)),
        Err(_) => (0, 0),
    };
    let (mut ops, _) = stream::gen_ops(c, nsec, nseg, data.len(), &names, 10);
    if bulk >= 248 {
        ops.insert(0, Q::SecData(1));
        ops.truncate(6);
        ops.push(Q::SecData(1));
    }
    // repeat some ops so that a query that failed is asked again later
    let extra = c.below(4) as usize;
    for _ in 0..extra.min(ops.len()) {
        let j = c.idx(ops.len());
        ops.push(ops[j].clone());
    }
    let (chunks, intr) = stream::gen_reader_behaviour(c, 24);
    let pos0 = stream::gen_initial_pos(c, data.len());
    Base { data, ops, chunks, intr, pos0, note }
}

#[derive(Debug)]
struct RunResult {
    open_ok: bool,
    answers: Vec<Option<QR>>,
}

/// Run open + ops under a fault schedule. For every call, record whether a fault fired during it.
fn run_with(b: &Base, faults: Vec<Fault>, ctx: &str) -> Result<(RunResult, Vec<bool>, u64), String> {
    run_with_reader(b, faults, None, ctx)
}

fn run_with_reader(b: &Base, faults: Vec<Fault>, no_seek_end: Option<u8>, ctx: &str) -> Result<(RunResult, Vec<bool>, u64), String> {
    let mut reader = Reader::with(b.data.clone(), b.chunks.clone(), b.intr, faults).at_position(b.pos0);
    if let Some(k) = no_seek_end {
        reader = reader.without_seek_end(k);
    }
    let mut fired_during: Vec<bool> = vec![];
    let f0 = reader.fired();
    let opened = guard(|| open_stream_as(AnyEndian::Little, reader.clone())).map_err(|p| format!("{}: open_stream panicked: {}", ctx, p))?;
    let fired_open = reader.fired() > f0;
    fired_during.push(fired_open);
    let mut s = match opened {
        Ok(s) => {
            if fired_open {
                return Err(format!("{}: an I/O fault fired during open_stream but it returned Ok", ctx));
            }
            s
        }
        Err(_) => return Ok((RunResult { open_ok: false, answers: vec![] }, fired_during, reader.calls())),
    };
    let mut answers = vec![];
    for (k, q) in b.ops.iter().enumerate() {
        let f1 = reader.fired();
        let r = guard(|| queries::eval_stream(&mut s, q)).map_err(|p| format!("{}: op #{} {:?} panicked: {}", ctx, k, q, p))?;
        let fired = reader.fired() > f1;
        fired_during.push(fired);
        if fired {
            if let Some(Ok(x)) = r {
                return Err(format!("{}: an I/O fault fired during op #{} {:?} but the call returned Ok({:#x})", ctx, k, q, x));
            }
        }
        answers.push(r);
    }
    Ok((RunResult { open_ok: true, answers }, fired_during, reader.calls()))
}

fn compare(b: &Base, clean: &RunResult, faulty: &RunResult, fired: &[bool], ctx: &str) -> Result<(bool, bool), String> {
    // returns (a fault fired inside a query, a later query succeeded)
    if !faulty.open_ok {
        return Ok((false, false));
    }
    let mut fired_in_query = false;
    let mut later_ok = false;
    for (k, a) in faulty.answers.iter().enumerate() {
        if fired.get(k + 1).copied().unwrap_or(false) {
            fired_in_query = true;
            continue;
        }
        if let Some(Ok(x)) = a {
            if clean.answers.get(k) != Some(&Some(Ok(*x))) {
                return Err(format!("{}: op #{} {:?} answers Ok({:#x}) after an earlier I/O failure; on a fault-free stream it answers {:?}", ctx, k, b.ops[k], x, clean.answers.get(k)));
            }
            if fired_in_query {
                later_ok = true;
            }
        }
    }
    Ok((fired_in_query, later_ok))
}

fn oracle(case: &[u8], obs: &mut Obs) -> Result<(), String> {
    let mut c = Choice::new(case);
    let b = gen_base(&mut c);
    let ctx0 = format!("{} ({} bytes), {} ops, reader chunks {:?} interrupt_every {}", b.note, b.data.len(), b.ops.len(), b.chunks, b.intr);
    let (clean, fired0, ncalls) = run_with(&b, vec![], &ctx0)?;
    if fired0.iter().any(|x| *x) {
        return Err("harness: a fault fired in the fault-free run".into());
    }
    // "a short read is legal reader behaviour": the fault-free answers do not depend on how the reader cuts its reads
    if !b.chunks.is_empty() || b.intr != 0 {
        let plain = Base { data: b.data.clone(), ops: b.ops.clone(), chunks: vec![], intr: 0, pos0: b.pos0, note: String::new() };
        let (clean0, _, _) = run_with(&plain, vec![], &ctx0)?;
        if clean0.open_ok != clean.open_ok || clean0.answers != clean.answers {
            let k = clean0.answers.iter().zip(clean.answers.iter()).position(|(x, y)| x != y);
            return Err(format!("{}: fault-free answers depend on the reader's read sizes: op {:?} answers {:?} on a reader that fills every request and {:?} on this one (open: {} / {})", ctx0, k.map(|k| &b.ops[k]), k.map(|k| clean0.answers[k]), k.map(|k| clean.answers[k]), clean0.open_ok, clean.open_ok));
        }
    }
    // exhaustive single-fault schedules: one run per I/O call index and kind (sampled above 300 calls)
    let idxs: Vec<u64> = if ncalls <= 300 { (0..ncalls).collect() } else { (0..300).map(|_| c.below(ncalls)).collect() };
    let mut runs = 0u64;
    let mut nt = false;
    for k in &idxs {
        // error (ErrorKind::Other) and premature EOF, transient and permanent, plus one transient error of another
        // io::ErrorKind (Unsupported, WouldBlock, UnexpectedEof, TimedOut, ...) per call index
        let exotic = 1 + ((*k as usize + b.data.len()) % (verif_model::io::ERROR_KINDS.len() - 1)) as u8;
        for (kind, permanent, ekind) in [(FaultKind::Error, false, 0u8), (FaultKind::Eof, false, 0), (FaultKind::Error, true, 0), (FaultKind::Eof, true, 0), (FaultKind::Error, false, exotic)] {
            let ctx = format!("{}; fault {:?} ({:?}) at I/O call {} of {} ({})", ctx0, kind, verif_model::io::ERROR_KINDS[ekind as usize], k, ncalls, if permanent { "permanent" } else { "transient" });
            let (r, fired, _) = run_with(&b, vec![Fault { at: *k, kind, permanent, ekind }], &ctx)?;
            if clean.open_ok && !r.open_ok && !fired[0] {
                return Err(format!("{}: open_stream failed although no fault fired during it", ctx));
            }
            let (fq, lo) = compare(&b, &clean, &r, &fired, &ctx)?;
            nt |= fq && lo;
            runs += 1;
        }
    }
    // a stream that cannot seek relative to its end at all (every SeekFrom::End fails, whatever the error kind says)
    for ekind in [0u8, 1, 1 + c.below(7) as u8] {
        let ctx = format!("{}; every SeekFrom::End fails with {:?}", ctx0, verif_model::io::ERROR_KINDS[ekind as usize]);
        let (r, fired, _) = run_with_reader(&b, vec![], Some(ekind), &ctx)?;
        let (fq, lo) = compare(&b, &clean, &r, &fired, &ctx)?;
        nt |= fq && lo;
        runs += 1;
    }
    // random multi-fault schedules with short reads mixed in
    for _ in 0..6 {
        let nf = 1 + c.below(4);
        let faults: Vec<Fault> = (0..nf).map(|_| Fault { at: c.below(ncalls + 2), kind: *c.pick(&[FaultKind::Error, FaultKind::Eof, FaultKind::Short, FaultKind::Short]), permanent: c.chance(30), ekind: c.below(8) as u8 }).collect();
        let ctx = format!("{}; fault schedule {:?}", ctx0, faults);
        let (r, fired, _) = run_with(&b, faults, &ctx)?;
        let (fq, lo) = compare(&b, &clean, &r, &fired, &ctx)?;
        nt |= fq && lo;
        runs += 1;
    }
    obs.count("faulty_runs", runs);
    obs.count("io_calls_fault_free", ncalls);
    obs.label_if(clean.open_ok, "opens_fault_free");
    obs.label_if(!b.chunks.is_empty(), "chunked_reader");
    obs.label_if(nt, "fault_in_query_then_later_success");
    if nt {
        obs.nontrivial();
    }
    obs.key = fnv64(&b.data) ^ fnv64(format!("{:?}{:?}", b.ops, b.chunks).as_bytes()).rotate_left(19);
    obs.describe(|| json!({"base": ctx0, "io_calls_fault_free": ncalls, "faulty_runs": runs, "ops": b.ops.iter().map(|q| format!("{:?}", q)).collect::<Vec<_>>()}));
    Ok(())
}

/// Cache pressure: many DISTINCT byte ranges of one length are read through one stream handle (more than any small
/// cache holds), then one further range of that length is requested while the reader fails (optionally after a short
/// read), then every earlier range is asked again, oldest or newest first: each answer is an error or the true bytes.
fn oracle_pressure(case: &[u8], obs: &mut Obs) -> Result<(), String> {
    use elf::section::SectionHeader;
    let mut c = Choice::new(case);
    let o = RichOpts { override_chance: 0, corrupt_chance: 0, max_gap: 16, tables_early: false, allow_compressed: false, max_names: 5, shrink_chance: 0, many_sections: false };
    let r = filegen::rich_file(&mut c, &o);
    let data = r.built.bytes;
    let len = *c.pick(&[1u64, 4, 8, 16, 24, 64, 3, 100]);
    if (data.len() as u64) < len + 140 {
        return Ok(());
    }
    let n = 8 + c.below(90) as usize;
    let span = data.len() as u64 - len;
    let step = (span / (n as u64 + 1)).max(1);
    let hdr = |s: u64| SectionHeader { sh_name: 0, sh_type: 1, sh_flags: 0, sh_addr: 0, sh_offset: s, sh_size: len, sh_link: 0, sh_info: 0, sh_addralign: 1, sh_entsize: 0 };
    let starts: Vec<u64> = (0..n as u64).map(|i| (i * step) % (span + 1)).collect();
    let extra = (n as u64 * step + c.below(step)) % (span + 1);
    let (chunks, intr) = stream::gen_reader_behaviour(&mut c, 1);
    let reader = Reader::with(data.clone(), chunks.clone(), intr, vec![]);
    let ctx = format!("rich file of {} bytes, {} distinct ranges of {} bytes, reader chunks {:?} interrupt_every {}", data.len(), n, len, chunks, intr);
    let fb = open_as(AnyEndian::Little, &data).map_err(|e| format!("harness: generated file does not open: {}", err_name(&e)))?;
    let mut s = match guard(|| open_stream_as(AnyEndian::Little, reader.clone())).map_err(|p| format!("{}: open_stream panicked: {}", ctx, p))? {
        Ok(s) => s,
        Err(e) => return Err(format!("{}: the slice opens but open_stream fails with {}", ctx, err_name(&e))),
    };
    let truth = |st: u64| queries::eval_bytes(&fb, &Q::FabSecData(hdr(st)));
    for (i, st) in starts.iter().enumerate() {
        let got = guard(|| queries::eval_stream(&mut s, &Q::FabSecData(hdr(*st)))).map_err(|p| format!("{}: read #{} panicked: {}", ctx, i, p))?;
        if got != Some(truth(*st)) {
            return Err(format!("{}: range #{} [{}, +{}) answers {:?}; its bytes give {:?}", ctx, i, st, len, got, truth(*st)));
        }
    }
    // the failing request
    let at = reader.calls() + c.below(3);
    let sched: Vec<Fault> = match c.below(4) {
        0 => vec![Fault { at, kind: FaultKind::Error, permanent: false, ekind: c.below(8) as u8 }],
        1 => vec![Fault { at, kind: FaultKind::Eof, permanent: false, ekind: 0 }],
        _ => vec![Fault { at, kind: FaultKind::Short, permanent: false, ekind: 0 }, Fault { at: at + 1, kind: if c.bool() { FaultKind::Error } else { FaultKind::Eof }, permanent: false, ekind: c.below(8) as u8 }],
    };
    reader.st.borrow_mut().faults.extend(sched.iter().copied());
    let f0 = reader.fired();
    let got = guard(|| queries::eval_stream(&mut s, &Q::FabSecData(hdr(extra)))).map_err(|p| format!("{}: the failing read panicked: {}", ctx, p))?;
    let fired = reader.fired() > f0;
    if fired && matches!(got, Some(Ok(_))) {
        return Err(format!("{}: an I/O fault ({:?}) fired while range [{}, +{}) was read but the call returned {:?}", ctx, sched, extra, len, got));
    }
    reader.clear_faults();
    let order: Vec<usize> = match c.below(3) {
        0 => (0..n).collect(),
        1 => (0..n).rev().collect(),
        _ => (0..n).map(|_| c.idx(n)).collect(),
    };
    for i in order {
        let got = guard(|| queries::eval_stream(&mut s, &Q::FabSecData(hdr(starts[i])))).map_err(|p| format!("{}: re-read of #{} panicked: {}", ctx, i, p))?;
        // (after a failure a later query may fail again - the statement allows that - but it may not answer wrongly)
        let failed_again = fired && matches!(got, Some(Err(())));
        obs.label_if(failed_again, "stream_keeps_failing_after_the_fault");
        if got != Some(truth(starts[i])) && !failed_again {
            return Err(format!("{}: after a failed read of [{}, +{}) (schedule {:?}, fired: {}) range #{} [{}, +{}) answers {:?}; its bytes give {:?}", ctx, extra, len, sched, fired, i, starts[i], len, got, truth(starts[i])));
        }
    }
    obs.count("ranges_reverified", n as u64);
    obs.label_if(fired, "fault_fired_in_the_extra_read");
    obs.label_if(n >= 33, "33+_distinct_ranges");
    obs.label_if(n >= 65, "65+_distinct_ranges");
    if fired && n >= 33 {
        obs.nontrivial();
    }
    obs.key = fnv64(&data) ^ (n as u64) << 50 ^ len << 40 ^ fnv64(format!("{:?}{:?}", sched, chunks).as_bytes());
    obs.describe(|| json!({"base": ctx, "schedule": format!("{:?}", sched), "fired": fired}));
    Ok(())
}

pub fn property() -> Property {
    Property {
        id: "C17",
        level: "fault_enumeration",
        rule: "base cases are (file: a rich generated file or a linker-produced sample <= 16 KB) x (0..10 stream calls from the C07 vocabulary plus up to 3 repeats, so that a query that failed is asked again later) x (reader delivering unlimited or 24..88-byte chunks, optionally ErrorKind::Interrupted every n-th read, cursor initially at 0 or elsewhere). The base case is run fault-free to count its N I/O calls (every seek and every read); then EXHAUSTIVELY one run per call index k < N (300 sampled indices above that) for each of {error (ErrorKind::Other), premature EOF} x {transient (only call k), permanent (every call from k on)} and one transient error of another io::ErrorKind (Unsupported, WouldBlock, UnexpectedEof, TimedOut, PermissionDenied, InvalidData, BrokenPipe; rotating with k), plus 3 runs on a stream on which every SeekFrom::End fails (Other, Unsupported, one more kind), plus 6 random multi-fault schedules with legal short reads mixed in. Oracle: the call (open or query) during which an error/EOF fault fired returns Err (no panic, no Ok); every other call returns Err or exactly the content digest it returns on the fault-free stream; open never fails unless a fault fired during it. Non-trivial: a fault fired inside a query (not only in open) and a later query succeeded; distinct by (file, ops, reader) hash. One base file in 32 has a section of 64..104 KiB that is queried first and last; the fault-free answers on a reader with short reads / interruptions must equal those on a reader that fills every request. Subcheck cache_pressure: 8..97 distinct byte ranges of one length (1..100 bytes) read through one handle and checked against the file's bytes, then one more range of that length requested while the reader fails (error, premature EOF, or a short read followed by either), then every earlier range asked again oldest-first, newest-first or in random order: each answer is an error (only if the fault fired) or equals the file's bytes; non-trivial when the fault fired and at least 33 ranges were cached.",
        assumptions: &["a call that has not returned after 60 s on a file of at most 16 KB (a fault-free case takes milliseconds) has not returned an error: reported as a violation by the watchdog", "ErrorKind::Interrupted is not a failure (read_exact retries it) and does not consume an I/O call index", "a short read is legal reader behaviour, not a failure"],
        subs: vec![Sub::new("faults", oracle, 1800, 60_000, 2_000_000).shrink(300).hang_violation().hang_secs(60), Sub::new("cache_pressure", oracle_pressure, 1500, 150_000, 5_000_000).shrink(400).hang_violation().hang_secs(60)],
        extras: vec![crate::fuzz::c17_choice],
    }
}
