//! C17 — stream I/O failures surface as errors and never corrupt later answers (fault enumeration).
use crate::common::*;
use crate::queries::{self, Q, QR};
use crate::stream;
use verif_model::filegen::{self, RichOpts};
use verif_model::inputs;
use verif_model::io::{Fault, FaultKind, Reader};

struct Base {
    data: Vec<u8>,
    ops: Vec<Q>,
    chunks: Vec<usize>,
    intr: u64,
    pos0: u64,
    note: String,
}

fn gen_base(c: &mut Choice) -> Base {
    // mostly valid generated files (so that queries succeed fault-free), a share of samples
    let (data, names, note) = if c.chance(40) {
        let all = inputs::samples();
        let small: Vec<_> = all.iter().filter(|(_, b)| b.len() <= 16_000).collect();
        let (n, b) = small[c.idx(small.len())];
        (b.clone(), vec![b"memset".to_vec()], format!("sample {}", n))
    } else {
        let o = RichOpts { override_chance: 30, corrupt_chance: 20, max_gap: 16, tables_early: false, allow_compressed: true, max_names: 5, shrink_chance: 0, many_sections: false };
        let r = filegen::rich_file(c, &o);
        let note = format!("rich file with {} sections", r.built.shdrs.len());
        (r.built.bytes, r.dyn_names, note)
    };
    let (nsec, nseg) = match elf::ElfBytes::<AnyEndian>::minimal_parse(&data) {
        Ok(f) => (f.section_headers().map(|t| t.len()).unwrap_or(0), f.segments().map(|t| t.len()).unwrap_or(0)),
        Err(_) => (0, 0),
    };
    let (mut ops, _) = stream::gen_ops(c, nsec, nseg, data.len(), &names, 10);
    // repeat some ops so that a query that failed is asked again later
    let extra = c.below(4) as usize;
    for _ in 0..extra.min(ops.len()) {
        let j = c.idx(ops.len());
        ops.push(ops[j].clone());
    }
    let (chunks, intr) = stream::gen_reader_behaviour(c, 24);
    let pos0 = stream::gen_initial_pos(c, data.len());
    Base { data, ops, chunks, intr, pos0, note }
}

#[derive(Debug)]
struct RunResult {
    open_ok: bool,
    answers: Vec<Option<QR>>,
}

/// Run open + ops under a fault schedule. For every call, record whether a fault fired during it.
fn run_with(b: &Base, faults: Vec<Fault>, ctx: &str) -> Result<(RunResult, Vec<bool>, u64), String> {
    run_with_reader(b, faults, None, ctx)
}

fn run_with_reader(b: &Base, faults: Vec<Fault>, no_seek_end: Option<u8>, ctx: &str) -> Result<(RunResult, Vec<bool>, u64), String> {
    let mut reader = Reader::with(b.data.clone(), b.chunks.clone(), b.intr, faults).at_position(b.pos0);
    if let Some(k) = no_seek_end {
        reader = reader.without_seek_end(k);
    }
    let mut fired_during: Vec<bool> = vec![];
    let f0 = reader.fired();
    let opened = guard(|| open_stream_as(AnyEndian::Little, reader.clone())).map_err(|p| format!("{}: open_stream panicked: {}", ctx, p))?;
    let fired_open = reader.fired() > f0;
    fired_during.push(fired_open);
    let mut s = match opened {
        Ok(s) => {
            if fired_open {
                return Err(format!("{}: an I/O fault fired during open_stream but it returned Ok", ctx));
            }
            s
        }
        Err(_) => return Ok((RunResult { open_ok: false, answers: vec![] }, fired_during, reader.calls())),
    };
    let mut answers = vec![];
    for (k, q) in b.ops.iter().enumerate() {
        let f1 = reader.fired();
        let r = guard(|| queries::eval_stream(&mut s, q)).map_err(|p| format!("{}: op #{} {:?} panicked: {}", ctx, k, q, p))?;
        let fired = reader.fired() > f1;
        fired_during.push(fired);
        if fired {
            if let Some(Ok(x)) = r {
                return Err(format!("{}: an I/O fault fired during op #{} {:?} but the call returned Ok({:#x})", ctx, k, q, x));
            }
        }
        answers.push(r);
    }
    Ok((RunResult { open_ok: true, answers }, fired_during, reader.calls()))
}

fn compare(b: &Base, clean: &RunResult, faulty: &RunResult, fired: &[bool], ctx: &str) -> Result<(bool, bool), String> {
    // returns (a fault fired inside a query, a later query succeeded)
    if !faulty.open_ok {
        return Ok((false, false));
    }
    let mut fired_in_query = false;
    let mut later_ok = false;
    for (k, a) in faulty.answers.iter().enumerate() {
        if fired.get(k + 1).copied().unwrap_or(false) {
            fired_in_query = true;
            continue;
        }
        if let Some(Ok(x)) = a {
            if clean.answers.get(k) != Some(&Some(Ok(*x))) {
                return Err(format!("{}: op #{} {:?} answers Ok({:#x}) after an earlier I/O failure; on a fault-free stream it answers {:?}", ctx, k, b.ops[k], x, clean.answers.get(k)));
            }
            if fired_in_query {
                later_ok = true;
            }
        }
    }
    Ok((fired_in_query, later_ok))
}

fn oracle(case: &[u8], obs: &mut Obs) -> Result<(), String> {
    let mut c = Choice::new(case);
    let b = gen_base(&mut c);
    let ctx0 = format!("{} ({} bytes), {} ops, reader chunks {:?} interrupt_every {}", b.note, b.data.len(), b.ops.len(), b.chunks, b.intr);
    let (clean, fired0, ncalls) = run_with(&b, vec![], &ctx0)?;
    if fired0.iter().any(|x| *x) {
        return Err("harness: a fault fired in the fault-free run".into());
    }
    // exhaustive single-fault schedules: one run per I/O call index and kind (sampled above 300 calls)
    let idxs: Vec<u64> = if ncalls <= 300 { (0..ncalls).collect() } else { (0..300).map(|_| c.below(ncalls)).collect() };
    let mut runs = 0u64;
    let mut nt = false;
    for k in &idxs {
        // error (ErrorKind::Other) and premature EOF, transient and permanent, plus one transient error of another
        // io::ErrorKind (Unsupported, WouldBlock, UnexpectedEof, TimedOut, ...) per call index
        let exotic = 1 + ((*k as usize + b.data.len()) % (verif_model::io::ERROR_KINDS.len() - 1)) as u8;
        for (kind, permanent, ekind) in [(FaultKind::Error, false, 0u8), (FaultKind::Eof, false, 0), (FaultKind::Error, true, 0), (FaultKind::Eof, true, 0), (FaultKind::Error, false, exotic)] {
            let ctx = format!("{}; fault {:?} ({:?}) at I/O call {} of {} ({})", ctx0, kind, verif_model::io::ERROR_KINDS[ekind as usize], k, ncalls, if permanent { "permanent" } else { "transient" });
            let (r, fired, _) = run_with(&b, vec![Fault { at: *k, kind, permanent, ekind }], &ctx)?;
            if clean.open_ok && !r.open_ok && !fired[0] {
                return Err(format!("{}: open_stream failed although no fault fired during it", ctx));
            }
            let (fq, lo) = compare(&b, &clean, &r, &fired, &ctx)?;
            nt |= fq && lo;
            runs += 1;
        }
    }
    // a stream that cannot seek relative to its end at all (every SeekFrom::End fails, whatever the error kind says)
    for ekind in [0u8, 1, 1 + c.below(7) as u8] {
        let ctx = format!("{}; every SeekFrom::End fails with {:?}", ctx0, verif_model::io::ERROR_KINDS[ekind as usize]);
        let (r, fired, _) = run_with_reader(&b, vec![], Some(ekind), &ctx)?;
        let (fq, lo) = compare(&b, &clean, &r, &fired, &ctx)?;
        nt |= fq && lo;
        runs += 1;
    }
    // random multi-fault schedules with short reads mixed in
    for _ in 0..6 {
        let nf = 1 + c.below(4);
        let faults: Vec<Fault> = (0..nf).map(|_| Fault { at: c.below(ncalls + 2), kind: *c.pick(&[FaultKind::Error, FaultKind::Eof, FaultKind::Short, FaultKind::Short]), permanent: c.chance(30), ekind: c.below(8) as u8 }).collect();
        let ctx = format!("{}; fault schedule {:?}", ctx0, faults);
        let (r, fired, _) = run_with(&b, faults, &ctx)?;
        let (fq, lo) = compare(&b, &clean, &r, &fired, &ctx)?;
        nt |= fq && lo;
        runs += 1;
    }
    obs.count("faulty_runs", runs);
    obs.count("io_calls_fault_free", ncalls);
    obs.label_if(clean.open_ok, "opens_fault_free");
    obs.label_if(!b.chunks.is_empty(), "chunked_reader");
    obs.label_if(nt, "fault_in_query_then_later_success");
    if nt {
        obs.nontrivial();
    }
    obs.key = fnv64(&b.data) ^ fnv64(format!("{:?}{:?}", b.ops, b.chunks).as_bytes()).rotate_left(19);
    obs.describe(|| json!({"base": ctx0, "io_calls_fault_free": ncalls, "faulty_runs": runs, "ops": b.ops.iter().map(|q| format!("{:?}", q)).collect::<Vec<_>>()}));
    Ok(())
}

pub fn property() -> Property {
    Property {
        id: "C17",
        level: "fault_enumeration",
        rule: "base cases are (file: a rich generated file or a linker-produced sample <= 16 KB) x (0..10 stream calls from the C07 vocabulary plus up to 3 repeats, so that a query that failed is asked again later) x (reader delivering unlimited or 24..88-byte chunks, optionally ErrorKind::Interrupted every n-th read, cursor initially at 0 or elsewhere). The base case is run fault-free to count its N I/O calls (every seek and every read); then EXHAUSTIVELY one run per call index k < N (300 sampled indices above that) for each of {error (ErrorKind::Other), premature EOF} x {transient (only call k), permanent (every call from k on)} and one transient error of another io::ErrorKind (Unsupported, WouldBlock, UnexpectedEof, TimedOut, PermissionDenied, InvalidData, BrokenPipe; rotating with k), plus 3 runs on a stream on which every SeekFrom::End fails (Other, Unsupported, one more kind), plus 6 random multi-fault schedules with legal short reads mixed in. Oracle: the call (open or query) during which an error/EOF fault fired returns Err (no panic, no Ok); every other call returns Err or exactly the content digest it returns on the fault-free stream; open never fails unless a fault fired during it. Non-trivial: a fault fired inside a query (not only in open) and a later query succeeded; distinct by (file, ops, reader) hash.",
        assumptions: &["a call that has not returned after 60 s on a file of at most 16 KB (a fault-free case takes milliseconds) has not returned an error: reported as a violation by the watchdog", "ErrorKind::Interrupted is not a failure (read_exact retries it) and does not consume an I/O call index", "a short read is legal reader behaviour, not a failure"],
        subs: vec![Sub::new("faults", oracle, 1800, 60_000, 2_000_000).shrink(300).hang_violation().hang_secs(60)],
        extras: vec![crate::fuzz::c17_choice],
    }
}
