#![no_main]
//! libFuzzer target over the raw-mode oracle of C18: the input is the complete file; a sampled set of
//! prefix lengths (all of them for inputs up to 700 bytes) and two extensions are checked against it.
use libfuzzer_sys::fuzz_target;
use verif_model::run::Obs;

#[global_allocator]
static ALLOC: verif_model::alloc::Shim = verif_model::alloc::Shim;

fuzz_target!(|data: &[u8]| {
    let mut obs = Obs::default();
    if let Err(m) = verif_checks::c18::oracle_raw(data, &mut obs) {
        panic!("ORACLE-FAIL: {}", m);
    }
});
