#![no_main]
//! libFuzzer target over the raw-mode oracles of C01 / C06 / C16 (selected by VERIF_FUZZ_ORACLE).
//! Input layout: [n][n bytes of walker arguments][the ELF file]; so the sample objects are usable as seeds
//! and libFuzzer's byte-level mutations act on real headers.
use libfuzzer_sys::fuzz_target;
use std::sync::OnceLock;
use verif_model::run::Obs;

#[global_allocator]
static ALLOC: verif_model::alloc::Shim = verif_model::alloc::Shim;

fn oracle() -> verif_model::run::OracleFn {
    static O: OnceLock<verif_model::run::OracleFn> = OnceLock::new();
    *O.get_or_init(|| match std::env::var("VERIF_FUZZ_ORACLE").as_deref() {
        Ok("c06") => verif_checks::c01::oracle_noalloc_raw,
        Ok("c16") => verif_checks::c16::oracle_walk_raw,
        _ => verif_checks::c01::oracle_total_raw,
    })
}

fuzz_target!(|data: &[u8]| {
    let mut obs = Obs::default();
    if let Err(m) = oracle()(data, &mut obs) {
        panic!("ORACLE-FAIL: {}", m);
    }
});
