#![no_main]
//! libFuzzer target over the raw-mode oracles of C07 / C08 (selected by VERIF_FUZZ_ORACLE).
//! Input layout: [n][n bytes driving the op sequence and reader behaviour][the ELF file].
use libfuzzer_sys::fuzz_target;
use std::sync::OnceLock;
use verif_model::run::Obs;

#[global_allocator]
static ALLOC: verif_model::alloc::Shim = verif_model::alloc::Shim;

fn oracle() -> verif_model::run::OracleFn {
    static O: OnceLock<verif_model::run::OracleFn> = OnceLock::new();
    *O.get_or_init(|| match std::env::var("VERIF_FUZZ_ORACLE").as_deref() {
        Ok("c08") => verif_checks::c08::oracle_raw,
        _ => verif_checks::c07::oracle_raw,
    })
}

fuzz_target!(|data: &[u8]| {
    let mut obs = Obs::default();
    if let Err(m) = oracle()(data, &mut obs) {
        panic!("ORACLE-FAIL: {}", m);
    }
});
