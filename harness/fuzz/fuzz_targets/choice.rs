#![no_main]
//! libFuzzer target over the choice sequence of any registered proptest sub-check (VERIF_FUZZ_ORACLE =
//! "<property>.<subcheck>"): the fuzz input is decoded by the sub-check's own generator, so libFuzzer mutates
//! generator decisions and gets coverage feedback from the crate and the generator alike.
use libfuzzer_sys::fuzz_target;
use std::sync::OnceLock;
use verif_model::run::Obs;

#[global_allocator]
static ALLOC: verif_model::alloc::Shim = verif_model::alloc::Shim;

fn oracle() -> verif_model::run::OracleFn {
    static O: OnceLock<verif_model::run::OracleFn> = OnceLock::new();
    *O.get_or_init(|| {
        let v = std::env::var("VERIF_FUZZ_ORACLE").expect("VERIF_FUZZ_ORACLE=<property>.<subcheck>");
        let (p, s) = v.split_once('.').expect("VERIF_FUZZ_ORACLE=<property>.<subcheck>");
        verif_checks::fuzz::find_sub(p, s).expect("unknown sub-check").0
    })
}

fuzz_target!(|data: &[u8]| {
    let mut obs = Obs::default();
    if let Err(m) = oracle()(data, &mut obs) {
        panic!("ORACLE-FAIL: {}", m);
    }
});
